------------------------------- MODULE Syntax -------------------------------
(***************************************************************************)
(* The language of prolog.g4 at token level: an independent recogniser     *)
(* (InLanguage), a sentence generator (Derive: leftmost expansion of a     *)
(* sentential form), single-edit corruptions (Corrupt), and the clause     *)
(* heads a sentence defines (ClauseInfo).                                  *)
(*                                                                         *)
(* Token kinds: ATOM VAR NUM STR TRUE FAIL CUT UNOP BINOP LB RB and the    *)
(* literal tokens DOT(.) IF(:-) LP RP COMMA BAR(|) SLASH(/) NOT(\+)        *)
(* ARROW(->) SEMI(;).  Two pseudo kinds are in no token class, so a string *)
(* containing one is outside the language by definition: BAD (a character  *)
(* outside the lexicon) and OPENQ (an opened, unterminated quoted atom).    *)
(*                                                                         *)
(* Every recogniser operator returns the SET of positions at which the     *)
(* nonterminal can end (the grammar is ambiguous; sets keep that).  Left   *)
(* recursion of `term BINOP term` and of the predicate operators is        *)
(* removed in the usual operand/operator form.                             *)
(*                                                                         *)
(* Quirks of prolog.g4 kept on purpose (they are the documented language): *)
(* empty argument lists foo(), [a, | T], list tails must be variables,     *)
(* true/fail are keywords, any term may stand as a clause head.            *)
(***************************************************************************)
EXTENDS Naturals, Sequences, FiniteSets, TLC, Json, IOUtils

Kinds == {"ATOM","VAR","NUM","STR","TRUE","FAIL","CUT","UNOP","BINOP","LB","RB","DOT","IF","LP","RP",
          "COMMA","BAR","SLASH","NOT","ARROW","SEMI"}
Pseudo == {"BAD", "OPENQ"}
AllKinds == Kinds \cup Pseudo
NonTerminals == {"clause", "pe", "simple", "term", "termlist", "termlist1"}

CONSTANTS MaxLen,        \* bound on the number of tokens
          Shard, Shards  \* this run handles the strings whose hash mod Shards = Shard

VARIABLES toks,   \* the token string (Derive mode: a sentential form)
          tag     \* what produced it: "init" | "corrupt:<kind>" | index into the JSON input
vars == <<toks, tag>>

Tok(i) == IF i <= Len(toks) THEN toks[i] ELSE "EOF"
UnionOver(S, F(_)) == UNION {F(x) : x \in S}
Expect(S, k) == {j + 1 : j \in {x \in S : Tok(x) = k}}

RECURSIVE TermE(_), TPrim(_), TUnit(_), TermListE(_), TLRest(_), BinTail(_), PE(_), PUnit(_), PPrim(_), PETail(_)
AtomE(i) == IF Tok(i) \in {"ATOM","NUM","STR"} THEN {i+1} ELSE {}
TLRest(i) == {i} \cup (IF Tok(i) = "COMMA" THEN UnionOver(TermE(i+1), TLRest) ELSE {})
TermListE(i) == {i} \cup UnionOver(TermE(i), TLRest)                 \* termlist may be empty
TPrim(i) ==
   LET t == Tok(i) IN
   AtomE(i)
   \cup (IF t \in {"ATOM","NUM","STR"} /\ Tok(i+1) = "LP" THEN Expect(TermListE(i+2), "RP") ELSE {})
   \cup (IF t = "ATOM" /\ Tok(i+1) = "SLASH" /\ Tok(i+2) = "NUM" THEN {i+3} ELSE {})
   \cup (IF t = "VAR" THEN {i+1} ELSE {})
   \cup (IF t = "BINOP" /\ Tok(i+1) = "LP"
           THEN Expect(UnionOver(Expect(TermE(i+2), "COMMA"), TermE), "RP") ELSE {})
   \cup (IF t = "LP" THEN Expect(TermE(i+1), "RP") ELSE {})
   \cup (IF t = "LB" THEN Expect(TermListE(i+1), "RB")
                      \cup LET afterTerm == TermE(i+1)
                               afterOpt == afterTerm \cup UnionOver(Expect(afterTerm, "COMMA"), TermListE)
                           IN Expect(Expect(Expect(afterOpt, "BAR"), "VAR"), "RB")   \* tail must be VARIABLE
         ELSE {})
TUnit(i) == IF Tok(i) = "UNOP" THEN TUnit(i+1) ELSE TPrim(i)
BinTail(i) == {i} \cup (IF Tok(i) = "BINOP" THEN UnionOver(TUnit(i+1), BinTail) ELSE {})
TermE(i) == UnionOver(TUnit(i), BinTail)

Simple(i) == (IF Tok(i) \in {"TRUE","FAIL","CUT"} THEN {i+1} ELSE {}) \cup TermE(i)
PPrim(i) == Simple(i) \cup (IF Tok(i) = "LP" THEN Expect(PE(i+1), "RP") ELSE {})
PUnit(i) == IF Tok(i) = "NOT" THEN PUnit(i+1) ELSE PPrim(i)
PETail(i) == {i} \cup (IF Tok(i) \in {"COMMA","ARROW","SEMI"} THEN UnionOver(PUnit(i+1), PETail) ELSE {})
PE(i) == UnionOver(PUnit(i), PETail)

ClauseE(i) == Expect(Simple(i), "DOT")
             \cup Expect(UnionOver(Expect(Simple(i), "IF"), PE), "DOT")
             \cup (IF Tok(i) = "IF" THEN Expect(Simple(i+1), "DOT") ELSE {})       \* directive
RECURSIVE ProgE(_)
ProgE(i) == {i} \cup UnionOver(ClauseE(i), ProgE)
AllTerminal == \A i \in DOMAIN toks : toks[i] \in AllKinds
InLanguage == AllTerminal /\ (Len(toks) + 1) \in ProgE(1)

----------------------------------------------------------------------------
(* The clause heads of a sentence.  A clause ends at a DOT (DOT occurs nowhere else), its
   head ends at the first IF or at the DOT.  kind: "plain" (ATOM or STR alone), "functor"
   (ATOM/STR followed by a parenthesised argument list that ends the head; n arguments),
   "directive", "other" (operators, parentheses, variables, numbers, keywords: the visitor
   may refuse these, and nothing is required then). *)
RECURSIVE TLCount(_,_)
\* {<<end, n>>} : a non-empty comma separated list of n terms starting at i ends before `end`
TLCount(i, n) == UNION { {<<e, n + 1>>} \cup (IF Tok(e) = "COMMA" THEN TLCount(e + 1, n + 1) ELSE {}) : e \in TermE(i) }
RECURSIVE DotsFrom(_)
DotsFrom(i) == IF i > Len(toks) THEN <<>> ELSE IF toks[i] = "DOT" THEN <<i>> \o DotsFrom(i + 1) ELSE DotsFrom(i + 1)
HeadInfo(s, e) ==   \* head occupies s..e-1
  IF Tok(s) = "IF" THEN [start |-> s, kind |-> "directive", arity |-> 0]
  ELSE IF e = s + 1 /\ Tok(s) \in {"ATOM", "STR"} THEN [start |-> s, kind |-> "plain", arity |-> 0]
  ELSE IF Tok(s) \in {"ATOM", "STR"} /\ Tok(s + 1) = "LP" /\ Tok(e - 1) = "RP"
          /\ (e - 1 = s + 2 \/ \E p \in TLCount(s + 2, 0) : p[1] = e - 1)
       THEN [start |-> s, kind |-> "functor",
             arity |-> IF e - 1 = s + 2 THEN 0 ELSE (CHOOSE p \in TLCount(s + 2, 0) : p[1] = e - 1)[2]]
  ELSE [start |-> s, kind |-> "other", arity |-> 0]
ClauseInfo ==
  LET dots == DotsFrom(1) IN
  [k \in DOMAIN dots |->
     LET s == IF k = 1 THEN 1 ELSE dots[k - 1] + 1
         d == dots[k]
         ifs == {j \in s..d : toks[j] = "IF"}
         e == IF Tok(s) = "IF" \/ ifs = {} THEN d ELSE CHOOSE j \in ifs : \A j2 \in ifs : j <= j2 IN
     HeadInfo(s, e)]

----------------------------------------------------------------------------
(* Mode 1: every token string up to MaxLen (the language is a tiny part of it) *)
RECURSIVE Strs(_)
Strs(n) == IF n = 0 THEN {<<>>}
           ELSE LET s == Strs(n-1) IN s \cup {Append(x, k) : x \in {y \in s : Len(y) = n-1}, k \in AllKinds}
Hash(s) == LET F[i \in 0..Len(s)] == IF i = 0 THEN 7 ELSE (F[i-1] * 31 + Len(s[i]) * 5 + i) % 9973 IN F[Len(s)]
Mine(s) == Shards = 1 \/ Hash(s) % Shards = Shard
ShortInit == toks \in {s \in Strs(MaxLen) : Mine(s)} /\ tag = "init"
Stutter == UNCHANGED vars

(* Mode 2: token strings from a JSON file *)
Input == IF "STRS_FILE" \in DOMAIN IOEnv THEN JsonDeserialize(IOEnv.STRS_FILE) ELSE <<>>
JsonInit == \E k \in DOMAIN Input : toks = Input[k] /\ tag = "json"

(* Mode 3: the sentence generator.  A sentential form is expanded at its leftmost
   nonterminal by any production; forms that can no longer fit in MaxLen tokens are pruned. *)
MinLen(sym) == CASE sym = "clause" -> 2 [] sym = "termlist" -> 0 [] sym \in NonTerminals -> 1 [] OTHER -> 1
RECURSIVE FormMin(_)
FormMin(f) == IF f = <<>> THEN 0 ELSE MinLen(Head(f)) + FormMin(Tail(f))
Prods(nt) ==
  CASE nt = "clause" -> {<<"simple","DOT">>, <<"simple","IF","pe","DOT">>, <<"IF","simple","DOT">>}
    [] nt = "pe" -> {<<"simple">>, <<"NOT","pe">>, <<"pe","COMMA","pe">>, <<"pe","ARROW","pe">>, <<"pe","SEMI","pe">>, <<"LP","pe","RP">>}
    [] nt = "simple" -> {<<"TRUE">>, <<"FAIL">>, <<"CUT">>, <<"term">>}
    [] nt = "term" -> {<<"ATOM">>, <<"NUM">>, <<"STR">>, <<"VAR">>,
                       <<"ATOM","LP","termlist","RP">>, <<"STR","LP","termlist","RP">>, <<"NUM","LP","termlist","RP">>,
                       <<"ATOM","SLASH","NUM">>, <<"UNOP","term">>, <<"term","BINOP","term">>,
                       <<"BINOP","LP","term","COMMA","term","RP">>, <<"LP","term","RP">>,
                       <<"LB","termlist","RB">>, <<"LB","term","BAR","VAR","RB">>,
                       <<"LB","term","COMMA","termlist","BAR","VAR","RB">>}
    [] nt = "termlist" -> {<<>>, <<"termlist1">>}
    [] nt = "termlist1" -> {<<"term">>, <<"term","COMMA","termlist1">>}
FirstNT(f) == CHOOSE i \in DOMAIN f : f[i] \in NonTerminals /\ \A j \in 1..(i-1) : f[j] \notin NonTerminals
DeriveInit == toks \in {<<"clause">>, <<"clause", "clause">>} /\ tag = "init"
Derive == /\ ~AllTerminal
          /\ LET i == FirstNT(toks) IN
             \E p \in Prods(toks[i]) :
                LET f == SubSeq(toks, 1, i-1) \o p \o SubSeq(toks, i+1, Len(toks)) IN
                /\ FormMin(f) <= MaxLen
                /\ toks' = f
          /\ tag' = tag
\* the generator derives only sentences of the language (validates recogniser against generator)
GeneratorSound == AllTerminal => InLanguage

(* Mode 4: every single-edit corruption of a sentence *)
Corruptions(s) ==
  LET n == Len(s) IN
     {[k |-> "delete", s |-> SubSeq(s, 1, i-1) \o SubSeq(s, i+1, n)] : i \in 1..n}
  \cup {[k |-> "insert", s |-> SubSeq(s, 1, i-1) \o <<x>> \o SubSeq(s, i, n)] : i \in 1..(n+1), x \in Kinds}
  \cup {[k |-> "duplicate", s |-> SubSeq(s, 1, i) \o SubSeq(s, i, n)] : i \in 1..n}
  \cup {[k |-> "swap", s |-> SubSeq(s, 1, i-1) \o <<s[i+1], s[i]>> \o SubSeq(s, i+2, n)] : i \in 1..(n-1)}
  \cup {[k |-> "truncate", s |-> SubSeq(s, 1, i)] : i \in 0..(n-1)}
  \cup {[k |-> "badchar", s |-> SubSeq(s, 1, i-1) \o <<"BAD">> \o SubSeq(s, i, n)] : i \in 1..(n+1)}
  \cup {[k |-> "openquote", s |-> SubSeq(s, 1, i-1) \o <<"OPENQ">>] : i \in 1..(n+1)}
CorruptNext == /\ tag \notin {"delete", "insert", "duplicate", "swap", "truncate", "badchar", "openquote"}
               /\ \E c \in Corruptions(toks) : toks' = c.s /\ tag' = c.k

----------------------------------------------------------------------------
(* Emission *)
EmitIn == InLanguage => PrintT("@@" \o ToJson([toks |-> toks, tag |-> tag, clauses |-> ClauseInfo]))
EmitAll == AllTerminal => PrintT("@@" \o ToJson([toks |-> toks, tag |-> tag, inl |-> InLanguage,
                                                  clauses |-> IF InLanguage THEN ClauseInfo ELSE <<>>]))
=============================================================================
