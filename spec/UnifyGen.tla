----------------------------- MODULE UnifyGen ------------------------------
(***************************************************************************)
(* Implementation-shaped model of engine.unify: destructive binding cells  *)
(* undone by generator finalisation.                                       *)
(*                                                                         *)
(*   heap : VarId -> [b: BOOLEAN, v: Term]   (_is_bound, _value; the stale *)
(*          _value survives unbinding, as in the code)                     *)
(*   generator objects as records [k \in {"var","arr","succ","fail"}, pc]  *)
(*     "var"  Variable.unify: bind -> yield inside try/finally -> unbind;  *)
(*            a bound variable delegates to unify(self, term)              *)
(*     "arr"  unify_arrays: length check, open-and-hold the argument       *)
(*            unifications one by one, yield, finally: close all           *)
(*     "succ"/"fail"  YPSuccess / YPFail                                   *)
(*   Unify(t1,t2,h) is the EAGER part of engine.unify (dereference with    *)
(*   get_value, dispatch, return a fresh generator); bodies run in GNext.  *)
(*                                                                         *)
(* Reference: Terms!MGU over a persistent substitution.                    *)
(* The environment: a stack of earlier, still active unifications (held    *)
(* open), then unify(t1,t2), then next / second next / close / drop.       *)
(***************************************************************************)
EXTENDS Terms, Json

CONSTANTS GetValueDeep,   \* TRUE: Variable.get_value resolves inside stored structures (current code)
                          \* FALSE: returns a stored structure as stored (the code as first pinned)
          Stacks,         \* which stacks of earlier unifications to use: "quick" | "all"
          Shard, Shards

NV == 3
X == V(0)
Y == V(1)
Z == V(2)
T0 == {A("a"), A("b"), I("1"), NIL, X, Y, Z}
T1 == T0 \cup {C("f", <<>>)} \cup {C("f", <<x>>) : x \in T0} \cup {C("g", <<x>>) : x \in T0}
         \cup {C("f", <<x, y>>) : x \in T0, y \in T0} \cup {Cons(x, y) : x \in T0, y \in {NIL, X, Y, Z}}

PriorQuick == {<<>>, << <<X, A("a")>> >>, << <<X, Y>> >>, << <<X, C("f", <<Y>>)>> >>,
               << <<X, Y>>, <<Y, Z>> >>, << <<X, C("f", <<Y>>)>>, <<Y, A("a")>> >>,
               << <<Y, A("a")>>, <<X, C("f", <<Y>>)>> >> }
PriorMore == {<< <<Y, Z>> >>, << <<Y, C("f", <<A("a")>>)>> >>, << <<Z, C("g", <<X>>)>> >>,
              << <<X, A("a")>>, <<Y, Z>> >>, << <<X, Y>>, <<Y, C("f", <<A("a")>>)>> >>,
              << <<Y, Z>>, <<X, C("f", <<Y>>)>> >>, << <<Z, C("g", <<X>>)>>, <<X, A("a")>> >>,
              << <<X, C("f", <<Y>>)>>, <<Y, Z>> >>, << <<Y, C("f", <<A("a")>>)>>, <<X, Y>> >>,
              << <<X, Cons(Y, Z)>> >>, << <<X, Cons(Y, Z)>>, <<Z, NIL>> >>, << <<Z, NIL>>, <<X, Cons(Y, Z)>> >>,
              << <<X, Y>>, <<Y, Z>>, <<Z, A("b")>> >>, << <<X, C("f", <<Y>>)>>, <<Y, C("g", <<Z>>)>>, <<Z, I("1")>> >> }
Prior == IF Stacks = "quick" THEN PriorQuick ELSE PriorQuick \cup PriorMore

\* ---------- reference: full resolution over the heap's active bindings
RECURSIVE Res(_,_)
Res(t, h) == IF t.t = "v" THEN (IF h[t.id].b THEN Res(h[t.id].v, h) ELSE t)
             ELSE IF t.t = "c" THEN [t EXCEPT !.a = [i \in DOMAIN t.a |-> Res(t.a[i], h)]]
             ELSE t
\* ---------- get_value as implemented
RECURSIVE GV(_,_)
GV(t, h) == IF t.t = "v" THEN (IF ~h[t.id].b THEN t
                               ELSE LET x == h[t.id].v IN
                                    IF GetValueDeep THEN GV(x, h)
                                    ELSE (IF x.t = "v" THEN GV(x, h) ELSE x))     \* stored structure as stored
            ELSE IF t.t = "c" THEN [t EXCEPT !.a = [i \in DOMAIN t.a |-> GV(t.a[i], h)]]
            ELSE t

\* ---------- generators
Succ == [k |-> "succ", pc |-> "new"]
FailG == [k |-> "fail", pc |-> "new"]
VarG(v, term) == [k |-> "var", v |-> v, term |-> term, pc |-> "new", inner |-> <<>>]
ArrG(a1, a2) == [k |-> "arr", a1 |-> a1, a2 |-> a2, pc |-> "new", its |-> <<>>]
AtomUnify(self, term, h) == LET arg == GV(term, h) IN
   IF arg.t = "a" THEN (IF arg.n = self.n THEN Succ ELSE FailG)
   ELSE IF arg.t = "v" THEN VarG(arg.id, self) ELSE FailG
FunctorUnify(self, term, h) == LET arg == GV(term, h) IN
   IF arg.t = "c" THEN (IF arg.n = self.n THEN ArrG(self.a, arg.a) ELSE FailG)
   ELSE IF arg.t = "v" THEN VarG(arg.id, self) ELSE FailG
Unify(t1, t2, h) == LET a1 == GV(t1, h) a2 == GV(t2, h) IN
   IF a1.t = "a" THEN AtomUnify(a1, a2, h)
   ELSE IF a1.t = "c" THEN FunctorUnify(a1, a2, h)
   ELSE IF a1.t = "v" THEN VarG(a1.id, a2)
   ELSE \* a Python constant (int): not an IUnifiable
        IF a2.t = "a" THEN AtomUnify(a2, a1, h)
        ELSE IF a2.t = "c" THEN FunctorUnify(a2, a1, h)
        ELSE IF a2.t = "v" THEN VarG(a2.id, a1)
        ELSE IF a1 = a2 THEN Succ ELSE FailG

R(g, h, y) == [g |-> g, h |-> h, y |-> y]
RECURSIVE GNext(_,_), GClose(_,_), CloseAll(_,_,_), OpenAll(_,_,_,_)
GClose(g, h) ==                          \* close() / finalisation of a dropped generator
   IF g.k = "var" THEN
      (IF g.pc = "yb" THEN R([g EXCEPT !.pc = "done"], [h EXCEPT ![g.v].b = FALSE], FALSE)
       ELSE IF g.pc = "inner" THEN LET r == GClose(g.inner[1], h) IN R([g EXCEPT !.pc = "done", !.inner = <<r.g>>], r.h, FALSE)
       ELSE R([g EXCEPT !.pc = "done"], h, FALSE))
   ELSE IF g.k = "arr" THEN
      (IF g.pc = "y" THEN LET r == CloseAll(g.its, 1, h) IN R([g EXCEPT !.pc = "done", !.its = r.g], r.h, FALSE)
       ELSE R([g EXCEPT !.pc = "done"], h, FALSE))
   ELSE R([g EXCEPT !.pc = "done"], h, FALSE)
CloseAll(its, i, h) == IF i > Len(its) THEN R(its, h, FALSE)
   ELSE LET r == GClose(its[i], h) IN CloseAll([its EXCEPT ![i] = r.g], i+1, r.h)
OpenAll(a1, a2, its, h) ==               \* open the argument unifications one by one, stop at the first mismatch
   LET i == Len(its) + 1 IN
   IF i > Len(a1) THEN R(its, h, TRUE)
   ELSE LET g0 == Unify(a1[i], a2[i], h)
            r == GNext(g0, h) IN
        IF r.y THEN OpenAll(a1, a2, Append(its, r.g), r.h)
        ELSE R(Append(its, r.g), r.h, FALSE)
GNext(g, h) ==
   IF g.pc = "done" THEN R(g, h, FALSE)
   ELSE IF g.k = "succ" THEN (IF g.pc = "new" THEN R([g EXCEPT !.pc = "y"], h, TRUE) ELSE R([g EXCEPT !.pc = "done"], h, FALSE))
   ELSE IF g.k = "fail" THEN R([g EXCEPT !.pc = "done"], h, FALSE)
   ELSE IF g.k = "var" THEN                                     \* Variable.unify
      (IF g.pc = "new" THEN
          (IF ~h[g.v].b THEN
              LET val == GV(g.term, h)
                  h1 == [h EXCEPT ![g.v].v = val] IN
              IF val = V(g.v) THEN R([g EXCEPT !.pc = "ys"], h1, TRUE)                 \* X = X: yield, no binding
              ELSE R([g EXCEPT !.pc = "yb"], [h1 EXCEPT ![g.v].b = TRUE], TRUE)         \* bind, yield inside try
           ELSE LET in0 == Unify(V(g.v), g.term, h)                                     \* already bound: delegate
                    r == GNext(in0, h) IN
                IF r.y THEN R([g EXCEPT !.pc = "inner", !.inner = <<r.g>>], r.h, TRUE)
                ELSE R([g EXCEPT !.pc = "done", !.inner = <<r.g>>], r.h, FALSE))
       ELSE IF g.pc = "ys" THEN R([g EXCEPT !.pc = "done"], h, FALSE)
       ELSE IF g.pc = "yb" THEN R([g EXCEPT !.pc = "done"], [h EXCEPT ![g.v].b = FALSE], FALSE)   \* finally
       ELSE LET r == GNext(g.inner[1], h) IN
            IF r.y THEN R([g EXCEPT !.inner = <<r.g>>], r.h, TRUE)
            ELSE R([g EXCEPT !.pc = "done", !.inner = <<r.g>>], r.h, FALSE))
   ELSE                                                          \* unify_arrays
      (IF g.pc = "new" THEN
          (IF Len(g.a1) # Len(g.a2) THEN R([g EXCEPT !.pc = "done"], h, FALSE)
           ELSE LET o == OpenAll(g.a1, g.a2, <<>>, h) IN
                IF o.y THEN R([g EXCEPT !.pc = "y", !.its = o.g], o.h, TRUE)
                ELSE LET c == CloseAll(o.g, 1, o.h) IN R([g EXCEPT !.pc = "done", !.its = c.g], c.h, FALSE))
       ELSE LET c == CloseAll(g.its, 1, h) IN R([g EXCEPT !.pc = "done", !.its = c.g], c.h, FALSE))

----------------------------------------------------------------------------
VARIABLES t1, t2, prior, heap, held, g, phase, yielded
vars == <<t1, t2, prior, heap, held, g, phase, yielded>>
H0 == [i \in 0..NV-1 |-> [b |-> FALSE, v |-> A("?")]]

RECURSIVE PriorS(_,_)
PriorS(p, s) == IF p = <<>> THEN [fail |-> FALSE, cyc |-> FALSE, s |-> s]
                ELSE LET r == MGU(p[1][1], p[1][2], s) IN IF r.fail \/ r.cyc THEN r ELSE PriorS(Tail(p), r.s)
RECURSIVE RunPrior(_,_,_)
RunPrior(p, h, gs) == IF p = <<>> THEN [h |-> h, gs |-> gs, ok |-> TRUE]
   ELSE LET r == GNext(Unify(p[1][1], p[1][2], h), h) IN
        IF r.y THEN RunPrior(Tail(p), r.h, Append(gs, r.g)) ELSE [h |-> r.h, gs |-> gs, ok |-> FALSE]
RefS == PriorS(prior, <<>>)
Ref == IF RefS.fail THEN RefS ELSE MGU(t1, t2, RefS.s)
Cyclic == Ref.cyc \/ RefS.cyc

Hash(a, b) == (Len(ToString(a)) * 7 + Len(ToString(b)) * 13 + Len(ToString(<<a, b>>))) % Shards
Init == /\ t1 \in T1 /\ t2 \in T1 /\ prior \in Prior
        /\ (Shards = 1 \/ Hash(t1, t2) = Shard)
        /\ LET rp == RunPrior(prior, H0, <<>>) IN
             heap = rp.h /\ held = rp.gs /\ phase = (IF rp.ok /\ ~Cyclic THEN "start" ELSE "skip")
        /\ g = Succ /\ yielded = FALSE
First == /\ phase = "start"
         /\ LET r == GNext(Unify(t1, t2, heap), heap) IN
            /\ g' = r.g /\ heap' = r.h /\ yielded' = r.y
            /\ phase' = IF r.y THEN "yield" ELSE "end"
         /\ UNCHANGED <<t1, t2, prior, held>>
Second == /\ phase = "yield"
          /\ LET r == GNext(g, heap) IN
             /\ g' = r.g /\ heap' = r.h /\ phase' = (IF r.y THEN "yield2" ELSE "end")
          /\ UNCHANGED <<t1, t2, prior, held, yielded>>
CloseIt == /\ phase = "yield"                 \* close() or drop at the yield
           /\ LET r == GClose(g, heap) IN g' = r.g /\ heap' = r.h /\ phase' = "end"
           /\ UNCHANGED <<t1, t2, prior, held, yielded>>
Next == First \/ Second \/ CloseIt
Spec == Init /\ [][Next]_vars

----------------------------------------------------------------------------
(* Properties (C02, C03, C15) *)
HeapAfterPrior == RunPrior(prior, H0, <<>>).h
BoundSet(h) == {i \in 0..NV-1 : h[i].b}
Vars3 == <<X, Y, Z>>
YieldIffUnifiable == (phase \in {"yield", "end"}) => (yielded = ~Ref.fail)
AtYieldBothSidesEqual == (phase = "yield") => Res(t1, heap) = Res(t2, heap)
AtYieldIsMGU == (phase = "yield") => \A i \in 0..NV-1 : Res(V(i), heap) = Resolve(V(i), Ref.s)
AtMostOneYield == phase # "yield2"
AllUnboundAfterEnd == (phase = "end") => BoundSet(heap) = BoundSet(HeapAfterPrior)
GetValueIsResolve == (phase = "yield") => \A i \in 0..NV-1 : GV(V(i), heap) = Res(V(i), heap)
\* the reference itself: symmetric, idempotent
RefSymmetric == (phase = "start") =>
   LET r2 == IF RefS.fail THEN RefS ELSE MGU(t2, t1, RefS.s) IN
   /\ r2.fail = Ref.fail
   /\ (~Ref.fail => CanonSeq([i \in 1..NV |-> Resolve(V(i-1), Ref.s)]) = CanonSeq([i \in 1..NV |-> Resolve(V(i-1), r2.s)]))
RefIsUnifier == (phase = "start" /\ ~Ref.fail) => Resolve(t1, Ref.s) = Resolve(t2, Ref.s)

\* emission of every start state with the predicted outcome
Emit == (phase = "start") =>
  PrintT("@@" \o ToJson([t1 |-> t1, t2 |-> t2, prior |-> prior,
                         y |-> ~Ref.fail,
                         at |-> IF Ref.fail THEN <<>>
                                ELSE CanonSeq(<<Resolve(t1, Ref.s), Resolve(t2, Ref.s), Resolve(X, Ref.s), Resolve(Y, Ref.s), Resolve(Z, Ref.s)>>),
                         bound0 |-> BoundSet(heap),
                         \* what X, Y, Z stand for under the stack alone (used for the follow-up unifications)
                         pv |-> CanonSeq(<<Resolve(X, RefS.s), Resolve(Y, RefS.s), Resolve(Z, RefS.s)>>)]))
=============================================================================
