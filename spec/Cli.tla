-------------------------------- MODULE Cli --------------------------------
(***************************************************************************)
(* The yldpc command line as a writer process.                             *)
(*                                                                         *)
(* State: out (sequence of lines, each tagged comment / code), exit        *)
(* status, the source being processed.  Actions:                           *)
(*   OpenOut, then for every source in the order given either              *)
(*   DebugWrite* ; WriteCode(library text of the source)   or   Fail       *)
(*   and CloseOut.                                                         *)
(* A debug message may contain line breaks (they come from atoms of the    *)
(* source); DebugWrite puts "# " in front of the message.  With            *)
(* PrefixEveryLine = FALSE that is all it does (the code as first pinned): *)
(* the continuation lines of a message are then code lines, and            *)
(* OnlyCommentsAdded fails.                                                *)
(*                                                                         *)
(* Properties: CliEqualsLibrary, OnlyCommentsAdded, NonZeroOnError.        *)
(* The same predicates decide recorded runs of the real command line       *)
(* (validation part at the end).                                           *)
(***************************************************************************)
EXTENDS Naturals, Sequences, FiniteSets, TLC, Json, IOUtils

CONSTANT PrefixEveryLine
Flags == {"d", "debug-parser", "debug-generator", "debug-filename"}

\* abstract programs: [ok, code: library output as code-line ids, msgs: debug messages as numbers of lines]
Progs == [ plain |-> [ok |-> TRUE,  code |-> <<"p1", "p2">>, msgs |-> <<1, 1>>],
           nl    |-> [ok |-> TRUE,  code |-> <<"n1">>,       msgs |-> <<1, 2, 1>>],   \* an atom with an embedded newline
           bad   |-> [ok |-> FALSE, code |-> <<>>,           msgs |-> <<1>>] ]
Sources == {<<"plain">>, <<"nl">>, <<"bad">>, <<"plain", "nl">>, <<"nl", "plain">>, <<"plain", "bad">>, <<"bad", "plain">>, <<"nl", "nl">>}

Line(c, t) == [c |-> c, t |-> t]
DebugOn(flags) == flags \cap {"d", "debug-parser", "debug-generator"} # {}
\* the lines one debug message of n lines becomes
MsgLines(n) == [j \in 1..n |-> Line(j = 1 \/ PrefixEveryLine, "dbg")]
RECURSIVE Concat(_)
Concat(ss) == IF ss = <<>> THEN <<>> ELSE Head(ss) \o Concat(Tail(ss))
CodeLines(p) == [j \in DOMAIN Progs[p].code |-> Line(FALSE, Progs[p].code[j])]
Strip(lines) == SelectSeq(lines, LAMBDA l : ~l.c)

VARIABLES flags, srcs, i, out, exit, phase, tid
vars == <<flags, srcs, i, out, exit, phase, tid>>
Init == /\ flags \in SUBSET Flags /\ srcs \in Sources /\ tid = 0
        /\ i = 1 /\ out = <<>> /\ exit = 0 /\ phase = "open"
OpenOut == phase = "open" /\ phase' = "run" /\ UNCHANGED <<flags, srcs, i, out, exit, tid>>
Compile == /\ phase = "run" /\ i <= Len(srcs)
           /\ LET p == srcs[i]
                  dbg == IF DebugOn(flags) THEN Concat([k \in DOMAIN Progs[p].msgs |-> MsgLines(Progs[p].msgs[k])]) ELSE <<>>
                  hdr == IF flags \cap {"d", "debug-filename"} # {} THEN <<Line(TRUE, "from")>> ELSE <<>> IN
              IF Progs[p].ok
              THEN out' = out \o dbg \o hdr \o CodeLines(p) /\ i' = i + 1 /\ UNCHANGED <<exit, phase>>
              ELSE out' = out \o dbg /\ exit' = 1 /\ phase' = "closed" /\ UNCHANGED i
           /\ UNCHANGED <<flags, srcs, tid>>
CloseOut == phase = "run" /\ i > Len(srcs) /\ phase' = "closed" /\ UNCHANGED <<flags, srcs, i, out, exit, tid>>
Next == OpenOut \/ Compile \/ CloseOut
Spec == Init /\ [][Next]_vars

AllOk == \A k \in DOMAIN srcs : Progs[srcs[k]].ok
LibConcat == Concat([k \in DOMAIN srcs |-> CodeLines(srcs[k])])
CliEqualsLibrary  == (phase = "closed" /\ AllOk /\ flags = {}) => out = LibConcat
OnlyCommentsAdded == (phase = "closed" /\ AllOk) => Strip(out) = LibConcat
NonZeroOnError    == (phase = "closed") => ((exit # 0) <=> ~AllOk)
EmitConfig == (phase = "open") => PrintT("@@" \o ToJson([flags |-> flags, srcs |-> srcs]))

----------------------------------------------------------------------------
(* Validation of recorded runs: one initial state per record.
   Rec = [flags, allok, exit, out: Seq([c, h]), lib: Seq([c, h]), errinfo: BOOLEAN, parses: BOOLEAN] *)
Recs == IF "TRACE_FILE" \in DOMAIN IOEnv THEN JsonDeserialize(IOEnv.TRACE_FILE) ELSE <<>>
VInit == /\ tid \in 1..Len(Recs)
         /\ flags = {} /\ srcs = <<>> /\ i = 0 /\ out = <<>> /\ exit = 0 /\ phase = "validate"
VNext == UNCHANGED vars
Rec == Recs[tid]
StripR(lines) == SelectSeq(lines, LAMBDA l : ~l.c)
Failing ==
     (IF Rec.allok /\ Rec.flags = <<>> /\ Rec.out # Rec.lib THEN {"CliEqualsLibrary"} ELSE {})
  \cup (IF Rec.allok /\ StripR(Rec.out) # StripR(Rec.lib) THEN {"OnlyCommentsAdded"} ELSE {})
  \cup (IF Rec.allok /\ Rec.exit # 0 THEN {"ExitZeroWhenAllCompile"} ELSE {})
  \cup (IF ~Rec.allok /\ Rec.exit = 0 THEN {"NonZeroOnError"} ELSE {})
  \cup (IF ~Rec.allok /\ Rec.syntaxerr /\ ~Rec.errinfo THEN {"ErrorNamesFileAndPosition"} ELSE {})
  \cup (IF Rec.crashed THEN {"NoTraceback"} ELSE {})
Verdict == PrintT("@@" \o ToJson([tid |-> tid, failing |-> Failing]))
=============================================================================
