SPECIFICATION Spec
CONSTANT MaxSteps = 30000
INVARIANT Emit
INVARIANT CleanAfterEnd
INVARIANT FactIdsUnique
INVARIANT FactsWellKeyed
INVARIANT BarriersOK
INVARIANT SnapshotsOK
CHECK_DEADLOCK FALSE
INVARIANT AnswersAreSLD
PROPERTY DbStepShape
