SPECIFICATION Spec
CONSTANTS MaxNodes = 4
MaxNodes2 = 0
MaxSol = 2
Shard = 0
Shards = 1
EmitIR = FALSE
INVARIANT CodegenRefinesControl
INVARIANT EmitInstance
CHECK_DEADLOCK FALSE
