SPECIFICATION Spec
CONSTANT PrefixEveryLine = FALSE
INVARIANT CliEqualsLibrary
INVARIANT OnlyCommentsAdded
INVARIANT NonZeroOnError
CHECK_DEADLOCK FALSE
