---- MODULE Cli_TTrace_1790555232 ----
EXTENDS Cli, Sequences, TLCExt, Toolbox, Naturals, TLC

_expression ==
    LET Cli_TEExpression == INSTANCE Cli_TEExpression
    IN Cli_TEExpression!expression
----

_trace ==
    LET Cli_TETrace == INSTANCE Cli_TETrace
    IN Cli_TETrace!trace
----

_inv ==
    ~(
        TLCGet("level") = Len(_TETrace)
        /\
        phase = ("closed")
        /\
        exit = (0)
        /\
        flags = ({"d"})
        /\
        i = (2)
        /\
        srcs = (<<"nl">>)
        /\
        tid = (0)
        /\
        out = (<<[c |-> TRUE, t |-> "dbg"], [c |-> TRUE, t |-> "dbg"], [c |-> FALSE, t |-> "dbg"], [c |-> TRUE, t |-> "dbg"], [c |-> TRUE, t |-> "from"], [c |-> FALSE, t |-> "n1"]>>)
    )
----

_init ==
    /\ phase = _TETrace[1].phase
    /\ exit = _TETrace[1].exit
    /\ i = _TETrace[1].i
    /\ out = _TETrace[1].out
    /\ flags = _TETrace[1].flags
    /\ srcs = _TETrace[1].srcs
    /\ tid = _TETrace[1].tid
----

_next ==
    /\ \E i,j \in DOMAIN _TETrace:
        /\ \/ /\ j = i + 1
              /\ i = TLCGet("level")
        /\ phase  = _TETrace[i].phase
        /\ phase' = _TETrace[j].phase
        /\ exit  = _TETrace[i].exit
        /\ exit' = _TETrace[j].exit
        /\ i  = _TETrace[i].i
        /\ i' = _TETrace[j].i
        /\ out  = _TETrace[i].out
        /\ out' = _TETrace[j].out
        /\ flags  = _TETrace[i].flags
        /\ flags' = _TETrace[j].flags
        /\ srcs  = _TETrace[i].srcs
        /\ srcs' = _TETrace[j].srcs
        /\ tid  = _TETrace[i].tid
        /\ tid' = _TETrace[j].tid

\* Uncomment the ASSUME below to write the states of the error trace
\* to the given file in Json format. Note that you can pass any tuple
\* to `JsonSerialize`. For example, a sub-sequence of _TETrace.
    \* ASSUME
    \*     LET J == INSTANCE Json
    \*         IN J!JsonSerialize("Cli_TTrace_1790555232.json", _TETrace)

=============================================================================

 Note that you can extract this module `Cli_TEExpression`
  to a dedicated file to reuse `expression` (the module in the 
  dedicated `Cli_TEExpression.tla` file takes precedence 
  over the module `Cli_TEExpression` below).

---- MODULE Cli_TEExpression ----
EXTENDS Cli, Sequences, TLCExt, Toolbox, Naturals, TLC

expression == 
    [
        \* To hide variables of the `Cli` spec from the error trace,
        \* remove the variables below.  The trace will be written in the order
        \* of the fields of this record.
        phase |-> phase
        ,exit |-> exit
        ,i |-> i
        ,out |-> out
        ,flags |-> flags
        ,srcs |-> srcs
        ,tid |-> tid
        
        \* Put additional constant-, state-, and action-level expressions here:
        \* ,_stateNumber |-> _TEPosition
        \* ,_phaseUnchanged |-> phase = phase'
        
        \* Format the `phase` variable as Json value.
        \* ,_phaseJson |->
        \*     LET J == INSTANCE Json
        \*     IN J!ToJson(phase)
        
        \* Lastly, you may build expressions over arbitrary sets of states by
        \* leveraging the _TETrace operator.  For example, this is how to
        \* count the number of times a spec variable changed up to the current
        \* state in the trace.
        \* ,_phaseModCount |->
        \*     LET F[s \in DOMAIN _TETrace] ==
        \*         IF s = 1 THEN 0
        \*         ELSE IF _TETrace[s].phase # _TETrace[s-1].phase
        \*             THEN 1 + F[s-1] ELSE F[s-1]
        \*     IN F[_TEPosition - 1]
    ]

=============================================================================



Parsing and semantic processing can take forever if the trace below is long.
 In this case, it is advised to uncomment the module below to deserialize the
 trace from a generated binary file.

\*
\*---- MODULE Cli_TETrace ----
\*EXTENDS Cli, IOUtils, TLC
\*
\*trace == IODeserialize("Cli_TTrace_1790555232.bin", TRUE)
\*
\*=============================================================================
\*

---- MODULE Cli_TETrace ----
EXTENDS Cli, TLC

trace == 
    <<
    ([phase |-> "open",exit |-> 0,flags |-> {"d"},i |-> 1,srcs |-> <<"nl">>,tid |-> 0,out |-> <<>>]),
    ([phase |-> "run",exit |-> 0,flags |-> {"d"},i |-> 1,srcs |-> <<"nl">>,tid |-> 0,out |-> <<>>]),
    ([phase |-> "run",exit |-> 0,flags |-> {"d"},i |-> 2,srcs |-> <<"nl">>,tid |-> 0,out |-> <<[c |-> TRUE, t |-> "dbg"], [c |-> TRUE, t |-> "dbg"], [c |-> FALSE, t |-> "dbg"], [c |-> TRUE, t |-> "dbg"], [c |-> TRUE, t |-> "from"], [c |-> FALSE, t |-> "n1"]>>]),
    ([phase |-> "closed",exit |-> 0,flags |-> {"d"},i |-> 2,srcs |-> <<"nl">>,tid |-> 0,out |-> <<[c |-> TRUE, t |-> "dbg"], [c |-> TRUE, t |-> "dbg"], [c |-> FALSE, t |-> "dbg"], [c |-> TRUE, t |-> "dbg"], [c |-> TRUE, t |-> "from"], [c |-> FALSE, t |-> "n1"]>>])
    >>
----


=============================================================================

---- CONFIG Cli_TTrace_1790555232 ----
CONSTANTS
    PrefixEveryLine = FALSE

INVARIANT
    _inv

CHECK_DEADLOCK
    \* CHECK_DEADLOCK off because of PROPERTY or INVARIANT above.
    FALSE

INIT
    _init

NEXT
    _next

CONSTANT
    _TETrace <- _trace

ALIAS
    _expression
=============================================================================
\* Generated on Mon Sep 28 00:27:13 UTC 2026