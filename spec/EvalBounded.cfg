SPECIFICATION Spec
INVARIANT LimitRestored
INVARIANT BoundedIsPrefix
INVARIANT NoOverflowWhenShallow
INVARIANT ReturnsEverythingWhenShallow
CHECK_DEADLOCK FALSE
