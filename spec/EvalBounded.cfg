SPECIFICATION Spec
INVARIANT LimitRestored
INVARIANT BoundedIsPrefix
INVARIANT ResultIsCounted
INVARIANT NoOverflowWhenShallow
INVARIANT ReturnsEverythingWhenShallow
CHECK_DEADLOCK FALSE
