INIT DeriveInit
NEXT Derive
CONSTANTS MaxLen = 6
Shard = 0
Shards = 1
INVARIANT GeneratorSound
INVARIANT EmitIn
CHECK_DEADLOCK FALSE
