INIT Init
NEXT Next
INVARIANT Verdict
CHECK_DEADLOCK FALSE
