------------------------------ MODULE Literals ------------------------------
(***************************************************************************)
(* What source literals denote, and what to_python returns for a term.     *)
(* Executable definitions, evaluated by TLC on observations recorded from  *)
(* the real compiler + engine (one initial state per record).              *)
(*                                                                         *)
(* Literal syntax (texts are code point sequences):                        *)
(*   [k:"atom", text]   unquoted atom          [k:"qatom", raw]  'quoted'  *)
(*   [k:"num", digits]  numeral                [k:"var", name]  [k:"anon"] *)
(*   [k:"cmp", f, args] f(args), f an atom/qatom literal                   *)
(*   [k:"list", items]  [a,b,c]                [k:"lpair", items, tail]    *)
(* Terms: [t:"a", n] [t:"i", d] [t:"v", id] [t:"c", n, a]                  *)
(***************************************************************************)
EXTENDS Naturals, Sequences, FiniteSets, TLC, Json, IOUtils

Recs == JsonDeserialize(IOEnv.TRACE_FILE)
VARIABLE tid
Rec == Recs[tid]

QUOTE == 39
BACKSLASH == 92
\* the text between the outer quotes, with \' standing for a quote
Unquote(raw) ==
  LET body == SubSeq(raw, 2, Len(raw) - 1)
      n == Len(body)
      \* F[i] = [out, skip]: output after consuming i characters; skip = the i-th was a backslash consumed with its quote
      F[i \in 0..n] ==
        IF i = 0 THEN [out |-> <<>>, esc |-> FALSE]
        ELSE LET p == F[i-1] c == body[i] IN
             IF p.esc THEN [out |-> Append(p.out, c), esc |-> FALSE]       \* the character after a backslash is taken as is
             ELSE IF c = BACKSLASH /\ i < n /\ body[i+1] = QUOTE THEN [out |-> p.out, esc |-> TRUE]
             ELSE [out |-> Append(p.out, c), esc |-> FALSE]
  IN F[n].out

\* value of a numeral: its digits without leading zeros
RECURSIVE StripZeros(_)
StripZeros(d) == IF Len(d) > 1 /\ d[1] = 0 THEN StripZeros(Tail(d)) ELSE d
NumeralValue(digits) == StripZeros(digits)

NilName == <<91, 93>>
DotName == <<46>>
Nil == [t |-> "a", n |-> NilName]
Cons(h, t) == [t |-> "c", n |-> DotName, a |-> <<h, t>>]

RECURSIVE Denote(_), FoldList(_,_)
FoldList(items, tail) == IF items = <<>> THEN tail ELSE Cons(Denote(Head(items)), FoldList(Tail(items), tail))
Denote(l) ==
  CASE l.k = "atom"  -> [t |-> "a", n |-> l.text]
    [] l.k = "qatom" -> [t |-> "a", n |-> Unquote(l.raw)]
    [] l.k = "num"   -> [t |-> "i", d |-> NumeralValue(l.digits)]
    [] l.k = "var"   -> [t |-> "v", name |-> l.name]
    [] l.k = "anon"  -> [t |-> "v", name |-> <<0, l.occ>>]              \* every `_` is its own variable
    [] l.k = "cmp"   -> [t |-> "c", n |-> Denote(l.f).n, a |-> [i \in DOMAIN l.args |-> Denote(l.args[i])]]
    [] l.k = "list"  -> FoldList(l.items, Nil)
    [] l.k = "lpair" -> FoldList(l.items, Denote(l.tail))

\* variables numbered by first occurrence (comparison up to renaming)
RECURSIVE VarNames(_,_)
VarNames(t, acc) ==
  IF t.t = "v" THEN (IF \E i \in DOMAIN acc : acc[i] = t.name THEN acc ELSE Append(acc, t.name))
  ELSE IF t.t = "c" THEN LET F[i \in 0..Len(t.a)] == IF i = 0 THEN acc ELSE VarNames(t.a[i], F[i-1]) IN F[Len(t.a)]
  ELSE acc
RECURSIVE Number(_,_)
Number(t, vs) ==
  IF t.t = "v" THEN [t |-> "v", id |-> (CHOOSE i \in DOMAIN vs : vs[i] = t.name) - 1]
  ELSE IF t.t = "c" THEN [t EXCEPT !.a = [i \in DOMAIN t.a |-> Number(t.a[i], vs)]]
  ELSE t
Canonical(t) == Number(t, VarNames(t, <<>>))

\* to_python
PyUnspec == [unspec |-> TRUE]
RECURSIVE ToPy(_)
ToPy(t) ==
  CASE t.t = "v" -> [none |-> TRUE]
    [] t.t = "i" -> [i |-> t.d]
    [] t.t = "a" -> IF t.n = NilName THEN [l |-> <<>>] ELSE [s |-> t.n]
    [] t.t = "c" ->
         IF t.n = DotName
         THEN (IF Len(t.a) # 2 THEN PyUnspec
               ELSE LET h == ToPy(t.a[1]) tl == ToPy(t.a[2]) IN
                    IF "l" \in DOMAIN tl /\ "unspec" \notin DOMAIN h THEN [l |-> <<h>> \o tl.l] ELSE PyUnspec)
         ELSE LET args == [i \in DOMAIN t.a |-> ToPy(t.a[i])] IN
              IF \E i \in DOMAIN args : "unspec" \in DOMAIN args[i] THEN PyUnspec
              ELSE [f |-> t.n, a |-> args]

Den == Canonical(Denote(Rec.lit))
Failing ==
     (IF Den = Rec.intended THEN {} ELSE {"GeneratorAgreesWithDenote"})
  \cup (IF Rec.accepted /\ Den # Rec.obs THEN {"Denotes"} ELSE {})
  \cup (IF Rec.accepted /\ "unspec" \notin DOMAIN ToPy(Den) /\ ToPy(Den) # Rec.py THEN {"ToPython"} ELSE {})
  \* to_python applied by the consumer to a term it built itself, whose list tails and arguments are variables bound
  \* by unifications that are still suspended (field `absent`: not recorded for this literal)
  \cup (IF Rec.accepted /\ "absent" \notin DOMAIN Rec.py_direct /\ "unspec" \notin DOMAIN ToPy(Den) /\ ToPy(Den) # Rec.py_direct
        THEN {"ToPythonOfATermWithBoundParts"} ELSE {})
  \cup (IF Rec.accepted /\ ~Rec.api_unifies THEN {"ApiBuiltTermUnifies"} ELSE {})
  \cup (IF Rec.accepted /\ ~Rec.cross_unifies THEN {"UnifiesAcrossEngines"} ELSE {})
  \cup (IF Rec.accepted /\ ~Rec.atoms_interned THEN {"AtomsInternedPerEngine"} ELSE {})

Init == tid \in 1..Len(Recs)
Next == UNCHANGED tid
Verdict == PrintT("@@" \o ToJson([tid |-> tid, failing |-> Failing]))
=============================================================================
