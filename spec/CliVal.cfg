INIT VInit
NEXT VNext
CONSTANT PrefixEveryLine = TRUE
INVARIANT Verdict
CHECK_DEADLOCK FALSE
