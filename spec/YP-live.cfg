SPECIFICATION FairSpec
CONSTANT MaxSteps = 400
INVARIANT Emit
INVARIANT CleanAfterEnd
INVARIANT FactIdsUnique
INVARIANT SnapshotsOK
INVARIANT NeverOutOfFuel
PROPERTY Termination
PROPERTY DbStepShape
CHECK_DEADLOCK FALSE
