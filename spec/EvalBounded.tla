---------------------------- MODULE EvalBounded ----------------------------
(***************************************************************************)
(* evaluate_bounded(query, projection, recursion_limit) as a transition    *)
(* system over the interpreter-wide recursion limit.                       *)
(*                                                                         *)
(*   EB_Begin(L)    save the current limit, set L                          *)
(*   EB_Answer      the query delivers its next answer, the projection     *)
(*                  returns, the value is appended to the result           *)
(*   EB_ProjRaise   ... the projection raises instead                      *)
(*   EB_Overflow    the interpreter's limit strikes: silent, enabled in    *)
(*                  ANY running state (the specification does not know     *)
(*                  CPython's frame arithmetic) - except when the search   *)
(*                  was measured to stay below the limit (shallow)         *)
(*   EB_Exhausted   the query has no more answers                          *)
(*   EB_End         the limit is restored, the call returns the result     *)
(*                  (or lets the projection's exception through)           *)
(*                                                                         *)
(* ref is the answer sequence of the unbounded search, as predicted by the *)
(* machine spec/YP.tla (a prefix of it when the search is infinite).       *)
(*                                                                         *)
(* The module is used twice: explored as it stands (Spec; invariants       *)
(* LimitRestored, BoundedIsPrefix, CompleteIfShallow on small constants)   *)
(* and as the acceptor of traces recorded from the real evaluate_bounded   *)
(* (TraceSpec).                                                            *)
(***************************************************************************)
EXTENDS Naturals, Sequences, FiniteSets, TLC, Json, IOUtils, SequencesExt

Traces == IF "TRACE_FILE" \in DOMAIN IOEnv THEN JsonDeserialize(IOEnv.TRACE_FILE) ELSE <<>>

VARIABLES tid,     \* which trace / which model instance
          l,       \* trace position
          phase,   \* "idle" | "running" | "overflow" | "exhausted" | "projraised" | "projswallowed" | "returned"
          limit,   \* the interpreter's recursion limit
          saved,   \* the limit evaluate_bounded found
          result,  \* projections collected so far (exhaustive model; stays empty while a trace is validated)
          nres,    \* how many projections have been collected: they are Ref[1..nres]  (ResultIsCounted)
          pos      \* answers consumed from ref
vars == <<tid, l, phase, limit, saved, result, nres, pos>>

\* ---------------------------------------------------------------- model instances
\* small instances for exhaustive exploration
ModelRefs == << <<>>, <<"a">>, <<"a", "b">>, <<"a", "b", "c">> >>
Model == [ref : {ModelRefs[i] : i \in DOMAIN ModelRefs}, complete : BOOLEAN, shallow : BOOLEAN, raiseAt : 0..3, swallow : BOOLEAN, L : {50, 200}]
Inst == IF Traces = <<>> THEN SetToSeq(Model) ELSE <<>>
Ref      == IF Traces = <<>> THEN Inst[tid].ref ELSE Traces[tid].ref
Complete == IF Traces = <<>> THEN Inst[tid].complete ELSE Traces[tid].complete
Shallow  == IF Traces = <<>> THEN Inst[tid].shallow ELSE Traces[tid].shallow

EB_Begin(L) == /\ phase = "idle"
               /\ saved' = limit /\ limit' = L /\ phase' = "running" /\ result' = <<>> /\ nres' = 0 /\ pos' = 0
\* (while a trace is validated the sequence itself is not carried in the state: a trace of tens of
\* thousands of answers would make every state as long as the trace; ResultIsCounted, checked on the
\* exhaustive model, is the lemma that the count determines the sequence)
EB_Answer == /\ phase = "running" /\ pos < Len(Ref)
             /\ pos' = pos + 1 /\ nres' = nres + 1
             /\ result' = IF Traces = <<>> THEN Append(result, Ref[pos + 1]) ELSE result
             /\ UNCHANGED <<phase, limit, saved>>
EB_ProjRaise == /\ phase = "running" /\ pos < Len(Ref)
                /\ pos' = pos + 1 /\ phase' = "projraised"
                /\ UNCHANGED <<result, nres, limit, saved>>
\* the projection raises RuntimeError (or a subclass) or StopIteration: evaluate_bounded treats these like its own
\* overflow - the exception does not escape, the projections collected so far are returned
EB_ProjSwallowed == /\ phase = "running" /\ pos < Len(Ref)
                    /\ pos' = pos + 1 /\ phase' = "projswallowed"
                    /\ UNCHANGED <<result, nres, limit, saved>>
EB_Overflow == /\ phase = "running" /\ ~(Shallow /\ Complete)
               /\ phase' = "overflow" /\ UNCHANGED <<result, nres, limit, saved, pos>>
EB_Exhausted == /\ phase = "running" /\ pos = Len(Ref) /\ Complete
                /\ phase' = "exhausted" /\ UNCHANGED <<result, nres, limit, saved, pos>>
EB_End == /\ phase \in {"overflow", "exhausted", "projraised", "projswallowed"}
          /\ limit' = saved /\ phase' = "returned" /\ UNCHANGED <<result, nres, saved, pos>>
Result == IF Traces = <<>> THEN result ELSE SubSeq(Ref, 1, nres)


\* properties of the model (C17)
LimitRestored     == phase = "returned" => limit = saved
\* (for a trace the collected sequence is Ref[1..nres] by construction; what is checked there is that the
\* implementation's returned list equals it, in TEnd)
BoundedIsPrefix   == (Traces = <<>>) => IsPrefix(result, Ref)
ResultIsCounted   == (Traces = <<>>) => (result = SubSeq(Ref, 1, nres) /\ nres <= pos /\ pos <= nres + 1)
CompleteIfShallow == (phase = "exhausted" \/ (phase = "returned" /\ Shallow /\ Complete /\ pos = Len(Ref))) => TRUE
NoOverflowWhenShallow == (Shallow /\ Complete) => phase # "overflow"

\* ---------------------------------------------------------------- exhaustive exploration
MInit == /\ tid \in 1..Cardinality(Model) /\ l = 0 /\ phase = "idle" /\ limit = 1000 /\ saved = 0 /\ result = <<>> /\ nres = 0 /\ pos = 0
MNext == /\ UNCHANGED <<tid, l>>
         /\ \/ EB_Begin(Inst[tid].L)
            \/ (EB_Answer /\ pos + 1 # Inst[tid].raiseAt)
            \/ (EB_ProjRaise /\ pos + 1 = Inst[tid].raiseAt /\ ~Inst[tid].swallow)
            \/ (EB_ProjSwallowed /\ pos + 1 = Inst[tid].raiseAt /\ Inst[tid].swallow)
            \/ EB_Overflow \/ EB_Exhausted \/ EB_End
Spec == MInit /\ [][MNext]_vars
ReturnsEverythingWhenShallow ==
  (phase = "returned" /\ Shallow /\ Complete /\ Inst[tid].raiseAt \notin 1..Len(Ref)) => result = Ref

\* ---------------------------------------------------------------- trace validation
Events == Traces[tid].events
Ev == Events[l + 1]
TBegin == /\ Ev.ev = "begin" /\ limit = Ev.before /\ EB_Begin(Ev.limit)
TAnswer == /\ Ev.ev = "answer"
           /\ IF Ev.raises THEN (IF "swallowed" \in DOMAIN Ev /\ Ev.swallowed THEN EB_ProjSwallowed ELSE EB_ProjRaise) ELSE EB_Answer
           /\ Ref[pos'] = Ev.ans
\* the recorded end of the call: a silent Overflow / Exhausted step (or the projection's
\* exception) followed by End; the logged fields must equal the abstract state
TEnd == /\ Ev.ev = "end"
        /\ \E why \in {"overflow", "exhausted", "projraised", "projswallowed"} :
             /\ CASE why = "overflow" -> phase = "running" /\ ~(Shallow /\ Complete)
                  [] why = "exhausted" -> phase = "running" /\ pos = Len(Ref) /\ Complete
                  [] why = "projraised" -> phase = "projraised"
                  [] why = "projswallowed" -> phase = "projswallowed"
             /\ Ev.escaped = (IF why = "projraised" THEN "proj" ELSE "none")
             /\ (why # "projraised" => Ev.result = Result)
        /\ limit' = saved /\ limit' = Ev.after
        /\ Ev.bound = 0
        /\ phase' = "returned" /\ UNCHANGED <<result, nres, saved, pos>>
TraceNext == /\ l < Len(Events)
             /\ (TBegin \/ TAnswer \/ TEnd)
             /\ l' = l + 1 /\ tid' = tid
TInit == /\ tid \in 1..Len(Traces) /\ l = 0 /\ phase = "idle" /\ limit = Events[1].before
         /\ saved = 0 /\ result = <<>> /\ nres = 0 /\ pos = 0
TraceSpec == TInit /\ [][TraceNext]_vars
Accept == (l = Len(Events)) => PrintT(<<"ACCEPT", tid>>)
Stuck == (l < Len(Events) /\ ~ENABLED TraceNext) => PrintT(<<"STUCK", tid, l + 1, Ev.ev>>)
=============================================================================
