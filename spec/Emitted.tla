------------------------------ MODULE Emitted ------------------------------
(***************************************************************************)
(* The relation between a Prolog source program and the abstract syntax of *)
(* the Python text the compiler returned for it.                           *)
(*                                                                         *)
(*   DefinesExactly (C11): the module consists of function definitions     *)
(*     only, one generator function `<name>_<arity>` per clause-head key   *)
(*     of the source; loading it adds exactly those names and each is a    *)
(*     generator function that can be queried.                             *)
(*   EmittedOK (C12): every node is of a whitelisted kind; every call      *)
(*     calls one of the engine's term-construction / unification / query   *)
(*     functions by name; every string constant is a name that occurs in   *)
(*     the source, every integer constant the value of a numeral of the    *)
(*     source; assigned names never capture an engine name; names that are *)
(*     read are parameters, locals assigned in the same function or engine *)
(*     names.                                                              *)
(*                                                                         *)
(* Texts are sequences of code points, integers decimal strings.  The      *)
(* module is an evaluator: TLC evaluates the relation on observations      *)
(* recorded from the real compiler (one initial state per record).         *)
(***************************************************************************)
EXTENDS Naturals, Sequences, FiniteSets, TLC, Json, IOUtils

Recs == JsonDeserialize(IOEnv.TRACE_FILE)
VARIABLE tid
Rec == Recs[tid]

\* code points of the engine names generated code may call / read
Cp(s) == s   \* names arrive as code point sequences already; literals below are given by the driver
CallNames == Recs[1].callnames     \* {"variable","atom","functor","listpair","makelist","unify","query"} as code points
ReadNames == Recs[1].readnames     \* CallNames + "ATOM_NIL"
ApiNames  == Recs[1].apinames      \* every key of the engine's evaluation context

ToSet(s) == {s[i] : i \in DOMAIN s}
Digits(n) == IF n < 10 THEN <<48 + n>> ELSE <<48 + (n \div 10), 48 + (n % 10)>>   \* arity < 100
KeyName(h) == h.name \o <<95>> \o Digits(h.arity)

----------------------------------------------------------------------------
(* C11 *)
\* the AST arrives as a table of nodes, children by index (JSON readers limit nesting depth)
Nodes == Rec.module.nodes
Nd(i) == Nodes[i]
Stmts == [i \in DOMAIN Nd(Rec.module.root).body |-> Nd(Nd(Rec.module.root).body[i])]
AllFunctionDefs == \A i \in DOMAIN Stmts : Stmts[i].k = "FunctionDef"
DefNames == [i \in DOMAIN Stmts |-> Stmts[i].name]
HeadNames == {KeyName(Rec.heads[i]) : i \in DOMAIN Rec.heads}
OnePerKey == /\ ToSet(DefNames) = HeadNames
             /\ \A i, j \in DOMAIN Stmts : i # j => Stmts[i].name # Stmts[j].name
ArityOK == \A i \in DOMAIN Stmts : \E h \in ToSet(Rec.heads) :
              KeyName(h) = Stmts[i].name /\ Len(Stmts[i].args) = h.arity /\ Stmts[i].plainargs
Generators == \A i \in DOMAIN Stmts : Stmts[i].isgen
LoadsExactly == /\ Rec.load_ok
                /\ ToSet(Rec.newkeys) = HeadNames
                /\ \A i \in DOMAIN Rec.genflags : Rec.genflags[i]
AllCallable == \A i \in DOMAIN Rec.callable : Rec.callable[i]

C11Failing ==
  IF Rec.outcome = "rejected" THEN {}
  ELSE IF ~Rec.parse_ok THEN {"OutputIsPython"}
  ELSE (IF AllFunctionDefs THEN {} ELSE {"AllFunctionDefs"})
       \cup (IF AllFunctionDefs /\ ~OnePerKey THEN {"OnePerKey"} ELSE {})
       \cup (IF AllFunctionDefs /\ OnePerKey /\ ~ArityOK THEN {"ArityOK"} ELSE {})
       \cup (IF AllFunctionDefs /\ ~Generators THEN {"Generators"} ELSE {})
       \cup (IF ~LoadsExactly THEN {"LoadsExactly"} ELSE {})
       \cup (IF ~AllCallable THEN {"AllCallable"} ELSE {})

----------------------------------------------------------------------------
(* C12 *)
NodeKinds == {"Module", "FunctionDef", "For", "If", "Assign", "ExprYield", "Return", "Break", "Pass",
              "Call", "List", "Name", "Str", "Int", "Bool",
              \* control flow and tests that reach nothing by themselves (their leaves are checked like all others):
              \* another code generator may prefer them to the for/if/break idiom
              "While", "Continue", "BoolOp", "Not", "Compare", "None", "ExprYieldFrom"}
SrcStrings == ToSet(Rec.strings)
SrcInts == ToSet(Rec.ints)

\* `for _ in [1]:` is the generator's breakable block; its constant does not come from the source
BlockIdiom(n) == /\ Nd(n.iter).k = "List" /\ Len(Nd(n.iter).elts) = 1
                 /\ Nd(Nd(n.iter).elts[1]).k = "Int" /\ Nd(Nd(n.iter).elts[1]).v = "1"
\* Bad(n, env) = set of names of violated clauses in the subtree
RECURSIVE Bad(_,_), BadSeq(_,_)
BadSeq(ns, env) == UNION {Bad(ns[i], env) : i \in DOMAIN ns}
Bad(ix, env) ==
  LET n == Nd(ix) IN
  IF n.k \notin NodeKinds THEN {"NodeKind"}
  ELSE CASE n.k = "Call" ->
              (IF Nd(n.func).k = "Name" /\ Nd(n.func).id \in ToSet(CallNames) /\ n.plain THEN {} ELSE {"CallTarget"})
              \cup BadSeq(n.args, env)
         [] n.k = "Str" -> IF n.v \in SrcStrings THEN {} ELSE {"StringFromSource"}
         [] n.k = "Int" -> IF n.v \in SrcInts THEN {} ELSE {"IntFromSource"}
         [] n.k = "Name" -> IF n.id \in env \/ n.id \in ToSet(ReadNames) THEN {} ELSE {"NameRead"}
         [] n.k = "List" -> BadSeq(n.elts, env)
         [] n.k = "Assign" -> (IF Nd(n.target).k = "Name" /\ Nd(n.target).id \notin ToSet(ApiNames) THEN {} ELSE {"Capture"})
                              \cup Bad(n.value, env)
         [] n.k = "For" -> (IF Nd(n.target).k = "Name" /\ Nd(n.target).id \notin ToSet(ApiNames) THEN {} ELSE {"Capture"})
                           \cup (IF BlockIdiom(n) THEN {} ELSE Bad(n.iter, env))
                           \cup BadSeq(n.body, env) \cup BadSeq(n.orelse, env) \cup (IF n.plain THEN {} ELSE {"NodeKind"})
         [] n.k = "While" -> Bad(n.test, env) \cup BadSeq(n.body, env) \cup BadSeq(n.orelse, env)
         [] n.k = "BoolOp" -> BadSeq(n.values, env)
         [] n.k = "Not" -> Bad(n.operand, env)
         [] n.k = "Compare" -> Bad(n.left, env) \cup BadSeq(n.rights, env)
         [] n.k = "ExprYieldFrom" -> IF Nd(n.value).k = "Call" THEN Bad(n.value, env) ELSE {"YieldConstant"}
         [] n.k = "If" -> Bad(n.test, env) \cup BadSeq(n.body, env) \cup BadSeq(n.orelse, env)
         [] n.k = "ExprYield" -> IF Nd(n.value).k = "Bool" THEN {} ELSE {"YieldConstant"}
         [] n.k = "Return" -> IF n.plain THEN {} ELSE {"NodeKind"}
         [] n.k = "FunctionDef" ->
              (IF n.plainargs THEN {} ELSE {"NodeKind"})
              \cup (IF \E a \in ToSet(n.args) : a \in ToSet(ApiNames) THEN {"Capture"} ELSE {})
              \cup BadSeq(n.body, ToSet(n.args) \cup ToSet(n.assigned))
         [] n.k = "Module" -> BadSeq(n.body, {})
         [] OTHER -> {}

FuncNamesAreHeads == \A i \in DOMAIN Stmts : Stmts[i].k = "FunctionDef" => Stmts[i].name \in HeadNames

C12Failing ==
  IF Rec.outcome = "rejected" THEN {}
  ELSE IF ~Rec.parse_ok THEN {"OutputIsPython"}
  \* (a string or integer constant that is not taken from the source is data of the compiler's own - say atom('[]')
  \* for the empty list - and no violation of this property; whether literals keep their value is C16)
  ELSE (Bad(Rec.module.root, {}) \ {"StringFromSource", "IntFromSource"}) \cup (IF FuncNamesAreHeads THEN {} ELSE {"FuncNamesAreHeads"})
       \cup (IF Rec.audit = <<>> THEN {} ELSE {"NoForeignEffects"})
       \* the output written to a file and loaded through load_script_from_file is the same program
       \* (the bytes of the file are the text: no declaration inside a comment may change how it is read)
       \cup (IF Rec.file_ok THEN {} ELSE {"FileRouteIsTheSameProgram"})

----------------------------------------------------------------------------
Init == tid \in 2..Len(Recs)          \* record 1 carries the name tables
Next == UNCHANGED tid
VerdictC11 == PrintT("@@" \o ToJson([tid |-> tid, failing |-> C11Failing]))
VerdictC12 == PrintT("@@" \o ToJson([tid |-> tid, failing |-> C12Failing]))
=============================================================================
