SPECIFICATION TraceSpec
INVARIANT Accept
INVARIANT Stuck
INVARIANT LimitRestored
INVARIANT BoundedIsPrefix
CHECK_DEADLOCK FALSE
