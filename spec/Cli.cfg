SPECIFICATION Spec
CONSTANT PrefixEveryLine = TRUE
INVARIANT CliEqualsLibrary
INVARIANT OnlyCommentsAdded
INVARIANT NonZeroOnError
INVARIANT EmitConfig
CHECK_DEADLOCK FALSE
