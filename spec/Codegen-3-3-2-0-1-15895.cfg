SPECIFICATION Spec
CONSTANTS MaxNodes = 3
MaxNodes2 = 3
MaxSol = 2
Shard = 0
Shards = 1
EmitIR = FALSE
INVARIANT CodegenRefinesControl
INVARIANT EmitInstance
CHECK_DEADLOCK FALSE
