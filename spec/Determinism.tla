---------------------------- MODULE Determinism ----------------------------
(***************************************************************************)
(* C18: compilation is a function of the source text.                      *)
(*                                                                         *)
(* A configuration says in which circumstances a program is compiled: the  *)
(* string-hash seed of the process, and which other compilations happened  *)
(* before it in the same process ("fresh": none; "forward"/"reverse": all  *)
(* programs of the corpus that come before/after it; "repeat": the program *)
(* itself).  TLC enumerates the configuration space (Configs) for the      *)
(* driver, and decides the property on the recorded outputs:               *)
(*   Deterministic == any two records of the same program have the same    *)
(*                    output (sha256 of the returned text)                 *)
(***************************************************************************)
EXTENDS Naturals, Sequences, FiniteSets, TLC, Json, IOUtils

CONSTANTS NProgs, Seeds, Histories
Configs == [prog : 1..NProgs, seed : Seeds, history : Histories]

Recs == IF "TRACE_FILE" \in DOMAIN IOEnv THEN JsonDeserialize(IOEnv.TRACE_FILE) ELSE <<>>

VARIABLE c
EnumInit == c \in Configs
ValInit == c \in 1..NProgs
Next == UNCHANGED c
EmitConfig == PrintT("@@" \o ToJson(c))

\* validation: c ranges over programs
RecsOf(p) == {i \in DOMAIN Recs : Recs[i].prog = p}
Deterministic == \A i, j \in RecsOf(c) : Recs[i].sha = Recs[j].sha
Covered == \A s \in Seeds, h \in Histories : \E i \in RecsOf(c) : Recs[i].seed = s /\ Recs[i].history = h
Verdict == PrintT("@@" \o ToJson([prog |-> c, deterministic |-> Deterministic, covered |-> Covered,
                                  outputs |-> Cardinality({Recs[i].sha : i \in RecsOf(c)})]))
=============================================================================
