INIT Init
NEXT Next
INVARIANT VerdictC11
CHECK_DEADLOCK FALSE
