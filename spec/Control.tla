------------------------------ MODULE Control ------------------------------
(***************************************************************************)
(* Denotational semantics of clause bodies: the independent formulation    *)
(* against which the machine (YP.tla) and the model of the code generation *)
(* scheme (Codegen.tla) are checked.  It is meant to be read against a     *)
(* Prolog textbook.                                                        *)
(*                                                                         *)
(* Body trees over abstract leaves:                                        *)
(*   [b:"leaf", j, o]  leaf named j (j has Cnt(j) solutions), occurrence o *)
(*   [b:"true"] [b:"fail"] [b:"cut"]                                       *)
(*   [b:"and",l,r] [b:"or",l,r] [b:"then",c,t] [b:"not",g]                 *)
(* As in ISO Prolog there is no separate if-then-else constructor: `;`     *)
(* whose left operand is `->` is if-then-else.                             *)
(*                                                                         *)
(* Solution i of occurrence o appends <<o,i>> to the path, so an answer    *)
(* spells the route that produced it.                                      *)
(***************************************************************************)
EXTENDS Naturals, Sequences, FiniteSets, TLC

Leaf(j)    == [b |-> "leaf", j |-> j, o |-> 0]
TrueB      == [b |-> "true"]
FailB      == [b |-> "fail"]
CutB       == [b |-> "cut"]
And(l, r)  == [b |-> "and", l |-> l, r |-> r]
Or(l, r)   == [b |-> "or", l |-> l, r |-> r]
Then(c, t) == [b |-> "then", c |-> c, t |-> t]
Not(g)     == [b |-> "not", g |-> g]

\* all trees with exactly n nodes over the leaf names LN; cond = TRUE: opaque position
\* (condition of ->, argument of \+), where the properties say nothing about cut
RECURSIVE T(_,_,_)
T(n, cond, LN) ==
  IF n = 1 THEN {Leaf(j) : j \in LN} \cup {TrueB, FailB} \cup (IF cond THEN {} ELSE {CutB})
  ELSE (UNION { {And(a, b) : a \in T(k, cond, LN), b \in T(n-1-k, cond, LN)}
                \cup {Or(a, b) : a \in T(k, cond, LN), b \in T(n-1-k, cond, LN)}
                \cup {Then(c, t) : c \in T(k, TRUE, LN), t \in T(n-1-k, cond, LN)} : k \in 1..(n-2) })
       \cup {Not(a) : a \in T(n-1, TRUE, LN)}

\* number the leaf occurrences left to right: returns [b |-> tree, k |-> next free number]
RECURSIVE Number(_,_)
Number(b, k) ==
  CASE b.b = "leaf" -> [b |-> [b EXCEPT !.o = k], k |-> k + 1]
    [] b.b \in {"and", "or"} -> LET L == Number(b.l, k) R == Number(b.r, L.k) IN
                                [b |-> [b EXCEPT !.l = L.b, !.r = R.b], k |-> R.k]
    [] b.b = "then" -> LET L == Number(b.c, k) R == Number(b.t, L.k) IN
                       [b |-> [b EXCEPT !.c = L.b, !.t = R.b], k |-> R.k]
    [] b.b = "not" -> LET G == Number(b.g, k) IN [b |-> [b EXCEPT !.g = G.b], k |-> G.k]
    [] OTHER -> [b |-> b, k |-> k]

RECURSIVE HasCut(_)
HasCut(b) == CASE b.b = "cut" -> TRUE
               [] b.b \in {"and", "or"} -> HasCut(b.l) \/ HasCut(b.r)
               [] b.b = "then" -> HasCut(b.c) \/ HasCut(b.t)
               [] b.b = "not" -> HasCut(b.g)
               [] OTHER -> FALSE

(***************************************************************************)
(* Sem(b, cnt, path) = [ans |-> Seq(path), cut |-> BOOLEAN]                *)
(*   ans: the answers in order; cut: a cut was executed on the way to the  *)
(*   end of the enumeration, i.e. later clauses must not run.              *)
(***************************************************************************)
RECURSIVE Sem(_,_,_), SemConj(_,_,_,_,_)
Sem(b, cnt, path) ==
  CASE b.b = "leaf" -> [ans |-> [i \in 1..cnt[b.j] |-> Append(path, <<b.o, i>>)], cut |-> FALSE]
    [] b.b = "true" -> [ans |-> <<path>>, cut |-> FALSE]
    [] b.b = "fail" -> [ans |-> <<>>, cut |-> FALSE]
    [] b.b = "cut"  -> [ans |-> <<path>>, cut |-> TRUE]
    [] b.b = "and"  -> LET A == Sem(b.l, cnt, path) IN
                       SemConj(A.ans, 1, b.r, cnt, [ans |-> <<>>, cut |-> A.cut])
    [] b.b = "or"   -> IF b.l.b = "then"
                       THEN LET Cc == Sem(b.l.c, cnt, path) IN
                            IF Cc.ans # <<>> THEN Sem(b.l.t, cnt, Cc.ans[1]) ELSE Sem(b.r, cnt, path)
                       ELSE LET A == Sem(b.l, cnt, path) IN
                            IF A.cut THEN A
                            ELSE LET B == Sem(b.r, cnt, path) IN [ans |-> A.ans \o B.ans, cut |-> B.cut]
    [] b.b = "then" -> LET Cc == Sem(b.c, cnt, path) IN
                       IF Cc.ans # <<>> THEN Sem(b.t, cnt, Cc.ans[1]) ELSE [ans |-> <<>>, cut |-> FALSE]
    [] b.b = "not"  -> IF Sem(b.g, cnt, path).ans = <<>> THEN [ans |-> <<path>>, cut |-> FALSE]
                       ELSE [ans |-> <<>>, cut |-> FALSE]
\* conjunction: for every answer of the left goal in order, the answers of the right goal;
\* once the right goal reports a cut, the remaining answers of the left goal are discarded
SemConj(as, i, r, cnt, acc) ==
  IF i > Len(as) THEN acc
  ELSE LET B == Sem(r, cnt, as[i]) IN
       IF B.cut THEN [ans |-> acc.ans \o B.ans, cut |-> TRUE]
       ELSE SemConj(as, i+1, r, cnt, [ans |-> acc.ans \o B.ans, cut |-> acc.cut])

\* a predicate = its clause bodies in order; a clause that cut ends the predicate
RECURSIVE SemPred(_,_,_)
SemPred(cls, i, cnt) ==
  IF i > Len(cls) THEN <<>>
  ELSE LET R == Sem(cls[i], cnt, <<>>) IN
       IF R.cut THEN R.ans ELSE R.ans \o SemPred(cls, i+1, cnt)

\* the answer tuple a path stands for: column o holds the solution index chosen for
\* occurrence o, 0 when the occurrence is not on the path
Tuple(path, nocc) ==
  [o \in 1..nocc |-> IF \E k \in DOMAIN path : path[k][1] = o
                     THEN path[CHOOSE k \in DOMAIN path : path[k][1] = o][2] ELSE 0]
=============================================================================
