SPECIFICATION Spec
CONSTANTS GetValueDeep = TRUE
Stacks = "quick"
Shard = 0
Shards = 1
INVARIANT YieldIffUnifiable
INVARIANT AtYieldBothSidesEqual
INVARIANT AtYieldIsMGU
INVARIANT AtMostOneYield
INVARIANT AllUnboundAfterEnd
INVARIANT GetValueIsResolve
INVARIANT RefSymmetric
INVARIANT RefIsUnifier
INVARIANT Emit
CHECK_DEADLOCK FALSE
