--------------------------------- MODULE YP ---------------------------------
(***************************************************************************)
(* The yldprolog engine as a transition system.                            *)
(*                                                                         *)
(* State: a number of engines (dynamic fact database, definitions,         *)
(* variadic registrations), a number of query runs (suspended generator    *)
(* objects of the implementation: goal stack, choice-point stack,          *)
(* substitution), the position in the scenario and the history of          *)
(* API-level observations.                                                 *)
(*                                                                         *)
(* A scenario (Scns[idx]) is                                               *)
(*   [engines |-> n, scripts |-> [name |-> [key |-> Seq(Clause)]],         *)
(*    keys |-> Seq([n, k]), steps |-> Seq(Seq(Op))]                        *)
(* Every element of steps is a sequence of ALTERNATIVE API operations: the *)
(* environment chooses one that is enabled.  TLC therefore enumerates      *)
(* every history / interleaving / abandonment point the scenario admits.   *)
(*                                                                         *)
(* API-level actions (the linearisation points of the implementation, and  *)
(* the only things the replay driver performs on the real code):           *)
(*   load, loadfail, register, assert, clear, query, next, close, solve    *)
(* Between two API actions a run is advanced by named micro steps          *)
(* (Do...), one TLC transition each, so invariants are evaluated in every  *)
(* micro state.                                                            *)
(***************************************************************************)
EXTENDS Terms, Json, IOUtils

CONSTANTS MaxSteps   \* micro-step fuel per scenario

Scns == JsonDeserialize(IOEnv.SCN_FILE)

(***************************************************************************)
(* Reserved names: the keys of the engine's evaluation context.  A call    *)
(* with one of these names sees dynamic facts only, never a definition.    *)
(***************************************************************************)
ApiNames == {"__builtins__", "variable", "atom", "functor", "functor1", "functor2",
             "functor3", "listpair", "makelist", "ATOM_NIL", "unify", "match_dynamic",
             "query", "True", "False"}

----------------------------------------------------------------------------
(* bodies *)
TrueB == [b |-> "true"]
FailB == [b |-> "fail"]
CallB(g) == [b |-> "call", g |-> g]
F(g, cb) == [g |-> g, cb |-> cb]

RECURSIVE ShiftB(_,_)
ShiftB(b, off) ==
  CASE b.b = "call" -> [b EXCEPT !.g = Shift(b.g, off)]
    [] b.b \in {"and", "or"} -> [b EXCEPT !.l = ShiftB(b.l, off), !.r = ShiftB(b.r, off)]
    [] b.b = "then" -> [b EXCEPT !.c = ShiftB(b.c, off), !.t = ShiftB(b.t, off)]
    [] b.b = "not" -> [b EXCEPT !.g = ShiftB(b.g, off)]
    [] OTHER -> b

Get(f, k) == IF k \in DOMAIN f THEN f[k] ELSE <<>>
GetN(f, k) == IF k \in DOMAIN f THEN f[k] ELSE 0
Put(f, k, v) == (k :> v) @@ f

----------------------------------------------------------------------------
VARIABLES idx,    \* scenario index
          pc,     \* position in the scenario's steps
          engs,   \* engines
          runs,   \* run id -> run
          cur,    \* the run being advanced and why
          hist,   \* API operations performed, each with the predicted observation
          fuel,   \* micro steps used
          halted, \* the scenario was cut (unspecified input, fuel)
          tpc     \* "threads" scenarios: position of every thread in its own operation sequence
vars == <<idx, pc, engs, runs, cur, hist, fuel, halted, tpc>>

Scn == Scns[idx]
Steps == Scn.steps
\* A scenario may instead of `steps` (a sequence of alternatives) give `threads`: several
\* operation sequences whose steps TLC interleaves in every possible way (C04).
Threaded == "threads" \in DOMAIN Scn
Threads == IF Threaded THEN Scn.threads ELSE <<>>

BuiltinDef(n) == [kind |-> "builtin", name |-> n]
InitEng == [db |-> <<>>, nf |-> 1,
            defs |-> [k \in {"=/2", "\\=/2", "findall/3", "once/1", "assertz/1", "asserta/1", "retract/1", "retractall/1"} |->
                        <<BuiltinDef(CASE k = "=/2" -> "=" [] k = "\\=/2" -> "\\=" [] k = "findall/3" -> "findall" [] k = "once/1" -> "once"
                                       [] k = "assertz/1" -> "assertz" [] k = "asserta/1" -> "asserta" [] k = "retract/1" -> "retract"
                                       [] OTHER -> "retractall")>>],
            vari |-> [n \in {"call"} |-> BuiltinDef("call")],
            ncalls |-> <<>>]
NoCur == [r |-> 0, mode |-> "", left |-> 0, acc |-> <<>>, op |-> <<>>, t |-> 0]
\* move on in the scenario after an API operation of thread t (t = 0: the `steps` sequence)
Advance(t) == IF t = 0 THEN pc' = pc + 1 /\ tpc' = tpc
              ELSE pc' = pc /\ tpc' = [tpc EXCEPT ![t] = @ + 1]

----------------------------------------------------------------------------
(***************************************************************************)
(* The micro-step function works on a configuration c: the fields of the   *)
(* run together with the database fields of its engine (copied in before   *)
(* and written back after the step).                                       *)
(*   status: "run" | "answer" | "done" | "raised" | "cyclic" | "unspec"    *)
(***************************************************************************)
Ev(c, name) == [c EXCEPT !.evs = @ \cup {name}]
Stop(c, st) == [c EXCEPT !.status = st, !.goals = <<>>, !.cps = <<>>, !.s = <<>>]

DefsFor(c, n, k) ==
  IF n \in ApiNames THEN <<>>
  ELSE LET d == Get(c.defs, KeyStr(n, k)) IN
       IF d # <<>> THEN d ELSE IF n \in DOMAIN c.vari THEN <<c.vari[n]>> ELSE <<>>

\* A fact or clause head and a goal of the same name/arity are matched argument list against argument
\* list (the key decides the rest): foo() and foo are the same predicate, whichever way each is written.
Match(x, y, s) == MGUSeq(ArgsOf(x), ArgsOf(y), s)
CYC == 999999
RECURSIVE NextFact(_,_,_,_,_)
NextFact(snap, i, goal, s, nv) ==
  IF i > Len(snap) THEN 0
  ELSE LET r == Match(Shift(snap[i].term, nv), goal, s) IN
       IF r.cyc THEN CYC ELSE IF ~r.fail THEN i ELSE NextFact(snap, i+1, goal, s, nv)

RECURSIVE NextClause(_,_,_,_,_)
NextClause(cls, i, goal, s, nv) ==
  IF i > Len(cls) THEN 0
  ELSE LET r == Match(Shift(cls[i].h, nv), goal, s) IN
       IF r.cyc THEN CYC ELSE IF ~r.fail THEN i ELSE NextClause(cls, i+1, goal, s, nv)

RECURSIVE NextRow(_,_,_,_,_)
NextRow(rows, i, args, s, nv) ==
  IF i > Len(rows) THEN 0
  ELSE LET r == MGUSeq([j \in DOMAIN rows[i].args |-> Shift(rows[i].args[j], nv)], args, s) IN
       IF r.cyc THEN CYC ELSE IF ~r.fail THEN i ELSE NextRow(rows, i+1, args, s, nv)

InDb(db, key, id) == \E i \in DOMAIN Get(db, key) : Get(db, key)[i].id = id

RECURSIVE NextRetract(_,_,_,_,_,_,_)
NextRetract(snap, i, pat, s, nv, db, key) ==
  IF i > Len(snap) THEN 0
  ELSE IF ~InDb(db, key, snap[i].id) THEN NextRetract(snap, i+1, pat, s, nv, db, key)
  ELSE LET r == Match(Shift(snap[i].term, nv), pat, s) IN
       IF r.cyc THEN CYC ELSE IF ~r.fail THEN i ELSE NextRetract(snap, i+1, pat, s, nv, db, key)

Push(c, cp) == [c EXCEPT !.cps = Append(@, cp)]

RECURSIVE Backtrack(_), Resume(_,_), TryAlts(_,_), TryDefs(_,_), TryClauses(_,_),
          TryNative(_,_), TryRetract(_,_), Builtin(_,_,_,_)

\* DoBacktrack / DoExhausted
Backtrack(c) ==
  IF c.cps = <<>> THEN Ev(Stop(c, "done"), "DoExhausted")
  ELSE Resume([c EXCEPT !.cps = SubSeq(c.cps, 1, Len(c.cps) - 1)], c.cps[Len(c.cps)])

Resume(c0, cp) ==
  LET c == [c0 EXCEPT !.s = cp.s] IN
  CASE cp.kind = "alt"     -> Ev([c EXCEPT !.goals = cp.goals], "DoBacktrackAlt")
    [] cp.kind = "alts"    -> TryAlts(c, cp)
    [] cp.kind = "defs"    -> TryDefs(c, cp)
    [] cp.kind = "clauses" -> TryClauses(c, cp)
    [] cp.kind = "native"  -> TryNative(c, cp)
    [] cp.kind = "retract" -> TryRetract(c, cp)
    [] cp.kind = "findall" ->     \* DoFindallEnd
         LET r == MGU(cp.L, MkList(c.bags[cp.bag]), c.s) IN
         IF r.cyc THEN Stop(c, "cyclic")
         ELSE IF r.fail THEN Backtrack(Ev(c, "DoFindallEndFail"))
         ELSE Ev([c EXCEPT !.goals = cp.rest, !.s = r.s], "DoFindallEnd")

\* DoCallFacts: the facts of the key as they were when the call was made (snapshot),
\* then the definitions that were registered when the call was made.
TryAlts(c, cp) ==
  LET j == NextFact(cp.snap, cp.i, cp.goal, c.s, c.nv) IN
  IF j = CYC THEN Stop(c, "cyclic")
  ELSE IF j > 0
  THEN LET fact == cp.snap[j]
           r == Match(Shift(fact.term, c.nv), cp.goal, c.s) IN
       Ev([Push(c, [cp EXCEPT !.i = j + 1, !.seen = Append(@, fact.id)]) EXCEPT !.s = r.s, !.nv = @ + fact.nv, !.goals = cp.rest],
          "DoCallFacts")
  ELSE TryDefs(c, [kind |-> "defs", D |-> cp.D, d |-> 1, goal |-> cp.goal, rest |-> cp.rest, s |-> c.s])

\* DoCallClause / DoCallNative / DoCallUnknown: definitions of exactly this arity in load
\* order; each definition has its own cut barrier.
TryDefs(c, cp) ==
  IF cp.d > Len(cp.D) THEN Backtrack(Ev(c, IF cp.D = <<>> THEN "DoCallUnknown" ELSE "DoDefsExhausted"))
  ELSE LET c1 == IF cp.d < Len(cp.D) THEN Push(c, [cp EXCEPT !.d = cp.d + 1]) ELSE c
           barrier == Len(c1.cps)
           def == cp.D[cp.d] IN
       IF def.kind = "prolog"
       THEN TryClauses(c1, [kind |-> "clauses", cls |-> def.cls, i |-> 1, goal |-> cp.goal,
                            barrier |-> barrier, rest |-> cp.rest, s |-> c.s])
       ELSE IF def.kind = "builtin"
       THEN Builtin(c1, def.name, cp.goal, cp.rest)
       ELSE IF \E i \in DOMAIN ArgsOf(cp.goal) : TooBig(ArgsOf(cp.goal)[i], c.s) THEN Stop(c, "unspec")
       ELSE LET callno == GetN(c1.ncalls, def.fid) + 1
                c2 == [c1 EXCEPT !.ncalls = Put(@, def.fid, callno),
                                 !.nlog = Append(@, [fid |-> def.fid,
                                                     args |-> CanonSeq([i \in DOMAIN ArgsOf(cp.goal) |-> Resolve(ArgsOf(cp.goal)[i], c.s)])])] IN
            TryNative(c2, [kind |-> "native", def |-> def, i |-> 1, y |-> 0, callno |-> callno,
                           goal |-> cp.goal, rest |-> cp.rest, s |-> c.s])

TryClauses(c, cp) ==
  LET j == NextClause(cp.cls, cp.i, cp.goal, c.s, c.nv) IN
  IF j = CYC THEN Stop(c, "cyclic")
  ELSE IF j = 0 THEN Backtrack(Ev(c, "DoClausesExhausted"))
  ELSE LET cl == cp.cls[j]
           r == Match(Shift(cl.h, c.nv), cp.goal, c.s) IN
       Ev([Push(c, [cp EXCEPT !.i = j + 1]) EXCEPT
              !.s = r.s, !.nv = @ + cl.nv,
              !.goals = <<F(ShiftB(cl.body, c.nv), cp.barrier)>> \o cp.rest],
          "DoCallClause")

\* A native (Python) predicate: rows are tried like facts; the scenario may tell it to
\* raise on its callno-th invocation after having yielded y rows.
TryNative(c, cp) ==
  IF cp.def.raise.call = cp.callno /\ cp.def.raise.row = cp.y
  THEN Ev(Stop(c, "raised"), "DoNativeRaise")
  ELSE LET j == NextRow(cp.def.rows, cp.i, ArgsOf(cp.goal), c.s, c.nv) IN
       IF j = CYC THEN Stop(c, "cyclic")
       ELSE IF j = 0 THEN Backtrack(Ev(c, "DoNativeExhausted"))
       ELSE LET row == cp.def.rows[j]
                r == MGUSeq([k \in DOMAIN row.args |-> Shift(row.args[k], c.nv)], ArgsOf(cp.goal), c.s) IN
            Ev([Push(c, [cp EXCEPT !.i = j + 1, !.y = cp.y + 1]) EXCEPT
                   !.s = r.s, !.nv = @ + row.nv, !.goals = cp.rest],
               "DoCallNative")

\* DoRetractNext: works on the snapshot taken when the goal started; skips facts that have
\* been removed meanwhile; removes by identity.
TryRetract(c, cp) ==
  LET j == NextRetract(cp.snap, cp.i, cp.pat, c.s, c.nv, c.db, cp.key) IN
  IF j = CYC THEN Stop(c, "cyclic")
  ELSE IF j = 0 THEN Backtrack(Ev(c, "DoRetractExhausted"))
  ELSE LET fact == cp.snap[j]
           r == Match(Shift(fact.term, c.nv), cp.pat, c.s) IN
       Ev([Push(c, [cp EXCEPT !.i = j + 1, !.seen = Append(@, fact.id)]) EXCEPT
              !.s = r.s, !.nv = @ + fact.nv, !.goals = cp.rest,
              !.db = Put(c.db, cp.key, SelectSeq(Get(c.db, cp.key), LAMBDA f : f.id # fact.id))],
          "DoRetractNext")

\* DoIte: B is the height of the choice-point stack the commit cuts back to
Ite(c, cnd, thn, els, cb, rest) ==
  LET B == Len(c.cps) IN
  [c EXCEPT !.cps = Append(@, [kind |-> "alt", goals |-> <<F(els, cb)>> \o rest, s |-> c.s]),
            !.goals = <<F(cnd, B + 1), F([b |-> "commit", B |-> B], cb), F(thn, cb)>> \o rest]

\* DoAsserta / DoAssertz: the stored fact is a resolved copy with fact-local variables
\* a zero-argument compound term used as a fact is the atom
AsFact(t) == IF t.t = "c" /\ t.a = <<>> THEN A(t.n) ELSE t
AssertF(c, t, atEnd, rest) ==
  LET ct == Canon(AsFact(Resolve(t, c.s)))
      key == KeyOf(ct.term)
      fact == [id |-> c.nf, term |-> ct.term, nv |-> ct.nv]
      old == Get(c.db, key) IN
  [c EXCEPT !.db = Put(c.db, key, IF atEnd THEN Append(old, fact) ELSE <<fact>> \o old),
            !.nf = @ + 1, !.goals = rest]

\* The engine's builtin predicates.  They are ordinary entries of the engine's definitions (registered
\* when the engine is created and again by clear()): a script or a registration can overwrite or
\* extend them like any other definition, and dynamic facts of the same key come first.
Builtin(c, name, t, rest) ==
  LET args == ArgsOf(t)
      cb == 0 IN
  CASE name = "=" ->
         LET r == MGU(args[1], args[2], c.s) IN
         IF r.cyc THEN Stop(c, "cyclic")
         ELSE IF r.fail THEN Backtrack(Ev(c, "DoEqFail"))
         ELSE Ev([c EXCEPT !.goals = rest, !.s = r.s], "DoEq")
    [] name = "\\=" ->
         LET r == MGU(args[1], args[2], c.s) IN
         IF r.cyc THEN Stop(c, "cyclic")
         ELSE IF r.fail THEN Ev([c EXCEPT !.goals = rest], "DoNeq")
         ELSE Backtrack(Ev(c, "DoNeqFail"))
    [] name = "call" ->
         IF args = <<>> THEN Stop(c, "unspec")
         ELSE LET G == Walk(args[1], c.s) IN
         IF ~Callable(G) THEN Stop(c, "unspec")
         ELSE Ev([c EXCEPT !.goals = <<F(CallB(Mk(NameOf(G), ArgsOf(G) \o SubSeq(args, 2, Len(args)))), cb)>> \o rest],
                 "DoCallN")
    [] name = "once" ->
         Ev([c EXCEPT !.goals = <<F(CallB(C("call", <<args[1]>>)), cb),
                                   F([b |-> "commit", B |-> Len(c.cps)], cb)>> \o rest], "DoOnce")
    [] name = "findall" ->
         LET k == Len(c.bags) + 1 IN
         Ev([c EXCEPT !.bags = Append(@, <<>>),
                      !.cps = Append(@, [kind |-> "findall", bag |-> k, L |-> args[3], rest |-> rest, s |-> c.s]),
                      !.goals = <<F(CallB(C("call", <<args[2]>>)), cb),
                                  F([b |-> "collect", k |-> k, t |-> args[1]], cb), F(FailB, cb)>>],
            "DoFindallStart")
    [] name \in {"assertz", "asserta"} ->
         IF ~Callable(Walk(args[1], c.s)) \/ TooBig(args[1], c.s) THEN Stop(c, "unspec")
         ELSE Ev(AssertF(c, args[1], name = "assertz", rest), IF name = "assertz" THEN "DoAssertz" ELSE "DoAsserta")
    [] name = "retract" ->
         IF TooBig(args[1], c.s) THEN Stop(c, "unspec") ELSE
         LET pat == Resolve(args[1], c.s) IN
         IF ~Callable(pat) THEN Stop(c, "unspec")
         ELSE LET k2 == KeyOf(pat) IN
              TryRetract(Ev(c, "DoRetractStart"),
                         [kind |-> "retract", snap |-> Get(c.db, k2), i |-> 1, pat |-> pat, key |-> k2,
                          rest |-> rest, s |-> c.s, seen |-> <<>>])
    [] name = "retractall" ->
         IF TooBig(args[1], c.s) THEN Stop(c, "unspec") ELSE
         LET pat == Resolve(args[1], c.s) IN
         IF ~Callable(pat) THEN Stop(c, "unspec")
         ELSE LET k2 == KeyOf(pat)
                  facts == Get(c.db, k2) IN
              IF \E i \in DOMAIN facts : Match(Shift(facts[i].term, c.nv), pat, c.s).cyc THEN Stop(c, "cyclic")
              ELSE Ev([c EXCEPT !.goals = rest,
                                !.db = Put(c.db, k2, SelectSeq(facts, LAMBDA f : Match(Shift(f.term, c.nv), pat, c.s).fail))],
                      "DoRetractAll")

Call(c, t, cb, rest) ==
  IF ~Callable(t) THEN Stop(c, "unspec")
  ELSE TryAlts(IF t.n \in ApiNames THEN Ev(c, "DoCallReserved") ELSE c,
               [kind |-> "alts", snap |-> Get(c.db, KeyOf(t)), i |-> 1, goal |-> t,
                D |-> DefsFor(c, t.n, Arity(t)), rest |-> rest, s |-> c.s, seen |-> <<>>])

\* terms of more than a few thousand nodes (searches that double a term at every level) are not expanded:
\* the scenario is left unspecified at that point
AnswerTooBig(c) == \E i \in 1..c.qnv : TooBig(V(i - 1), c.s)
StepF(c) ==
  IF c.goals = <<>> THEN (IF AnswerTooBig(c) THEN Stop(c, "unspec") ELSE Ev([c EXCEPT !.status = "answer"], "DoAnswer"))
  ELSE LET f == c.goals[1]
           rest == Tail(c.goals)
           g == f.g
           cb == f.cb IN
    CASE g.b = "true" -> Ev([c EXCEPT !.goals = rest], "DoTrue")
      [] g.b = "fail" -> Backtrack(Ev(c, "DoFail"))
      [] g.b = "cut"  -> Ev([c EXCEPT !.goals = rest, !.cps = SubSeq(c.cps, 1, cb)], "DoCut")
      [] g.b = "and"  -> Ev([c EXCEPT !.goals = <<F(g.l, cb), F(g.r, cb)>> \o rest], "DoConj")
      [] g.b = "or"   -> IF g.l.b = "then"
                         THEN Ev(Ite(c, g.l.c, g.l.t, g.r, cb, rest), "DoIte")
                         ELSE Ev([c EXCEPT !.goals = <<F(g.l, cb)>> \o rest,
                                           !.cps = Append(@, [kind |-> "alt", goals |-> <<F(g.r, cb)>> \o rest, s |-> c.s])],
                                 "DoDisj")
      [] g.b = "then" -> Ev(Ite(c, g.c, g.t, FailB, cb, rest), "DoIfThen")
      [] g.b = "not"  -> Ev(Ite(c, g.g, FailB, TrueB, cb, rest), "DoNot")
      [] g.b = "commit"  -> Ev([c EXCEPT !.goals = rest, !.cps = SubSeq(c.cps, 1, g.B)], "DoCommit")
      [] g.b = "collect" ->
           \* an instance that is not ground: the property says "instances of T" and does not settle whether
           \* their variables are the caller's or fresh ones (ISO copies; the code keeps what get_value returns,
           \* which depends on the direction of variable-variable bindings): unspecified, the scenario is cut
           IF TooBig(g.t, c.s) THEN Stop(c, "unspec")
           ELSE IF ~Ground(Resolve(g.t, c.s)) THEN Stop(c, "unspec")
           ELSE Ev([c EXCEPT !.goals = rest, !.bags[g.k] = Append(@, Resolve(g.t, c.s))], "DoFindallCollect")
      [] g.b = "call" -> Call(c, Walk(g.g, c.s), cb, rest)

----------------------------------------------------------------------------
(* Views of the abstract state that the replay driver compares with the projection of
   the real state after every API call. *)
WatchKeys == Scn.keys
DbView(g) == [i \in DOMAIN WatchKeys |->
               LET fs == Get(g.db, KeyStr(WatchKeys[i].n, WatchKeys[i].k)) IN
               [j \in DOMAIN fs |-> fs[j].term]]
DefsView(g) == {k \in DOMAIN g.defs : g.defs[k] # <<>>} \cup {n \o "/n" : n \in DOMAIN g.vari}
Live == \E r \in DOMAIN runs : runs[r].status = "susp"
LiveAfter(rs) == \E r \in DOMAIN rs : rs[r].status = "susp"

Snapshot(es, rs) == [dbs |-> [e \in DOMAIN es |-> DbView(es[e])],
                     defs |-> [e \in DOMAIN es |-> DefsView(es[e])],
                     live |-> LiveAfter(rs)]

Rec(op, obs, es, rs) == Append(hist, [op |-> op, obs |-> obs, st |-> Snapshot(es, rs)])

NewRun(e, goal, qnv) ==
  [e |-> e, status |-> "fresh", goals |-> <<F(CallB(goal), 0)>>, cps |-> <<>>, s |-> <<>>, qargs |-> ArgsOf(goal),
   nv |-> qnv, qnv |-> qnv, bags |-> <<>>, evs |-> {}, nlog |-> <<>>, nans |-> 0]

RunActive(r) == r \in DOMAIN runs /\ runs[r].status \in {"fresh", "susp"}
HasActiveRun(e) == \E r \in DOMAIN runs : runs[r].e = e /\ runs[r].status \in {"fresh", "susp"}

OpEnabled(op) ==
  CASE op.op \in {"next", "close", "rest"} -> RunActive(op.r)
    [] op.op \in {"query", "solve"} -> op.r \notin DOMAIN runs
    [] op.op = "clear" -> TRUE     \* also while queries of the engine are suspended: they keep their snapshots and the
                                   \* definitions of the calls already made; what they call or retract afterwards
                                   \* meets the emptied engine
    [] op.op = "assert" -> op.r = 0 \/ op.r \in DOMAIN runs
    [] OTHER -> TRUE

ScriptDefs(name) == Scn.scripts[name]

LoadInto(g, script, ow) ==
  [g EXCEPT !.defs = [k \in (DOMAIN g.defs) \cup (DOMAIN script) |->
                        IF k \in DOMAIN script
                        THEN (IF ow THEN <<[kind |-> "prolog", cls |-> script[k]]>>
                              ELSE Append(Get(g.defs, k), [kind |-> "prolog", cls |-> script[k]]))
                        ELSE g.defs[k]]]

NativeDef(op) == [kind |-> "native", fid |-> op.fid, rows |-> op.rows, raise |-> op.raise]

RegisterInto(g, op) ==
  IF op.arity < 0 THEN [g EXCEPT !.vari = Put(@, op.name, NativeDef(op))]
  ELSE [g EXCEPT !.defs = Put(@, KeyStr(op.name, op.arity), <<NativeDef(op)>>)]

AssertInto(g, op) ==
  LET s == IF op.r = 0 THEN <<>> ELSE runs[op.r].s
      ct == Canon(AsFact(Resolve(op.term, s)))
      key == KeyOf(ct.term)
      fact == [id |-> g.nf, term |-> ct.term, nv |-> ct.nv]
      old == Get(g.db, key) IN
  [g EXCEPT !.db = Put(@, key, IF op.atEnd THEN Append(old, fact) ELSE <<fact>> \o old), !.nf = @ + 1]

\* the consumer fills a table: name(lo), name(lo+1), ..., name(lo+n-1) through assert_fact, in this order
\* (one API step per fact in the real code; one step here, because nothing else can run in between)
AssertNInto(g, op) ==
  LET key == KeyStr(op.name, 1)
      new == [i \in 1..op.n |-> [id |-> g.nf + i - 1, term |-> C(op.name, <<I(ToString(op.lo + i - 1))>>), nv |-> 0]]
      old == Get(g.db, key) IN
  [g EXCEPT !.db = Put(@, key, IF op.atEnd THEN old \o new ELSE [i \in 1..op.n |-> new[op.n + 1 - i]] \o old), !.nf = @ + op.n]

Ok == [k |-> "ok"]

\* immediate API operations
Imm(op, t) ==
  /\ op.op \in {"load", "loadfail", "register", "assert", "assertn", "clear", "query", "close"}
  /\ LET es == CASE op.op = "load" -> [engs EXCEPT ![op.e] = LoadInto(@, ScriptDefs(op.script), op.ow)]
                 [] op.op = "register" -> [engs EXCEPT ![op.e] = RegisterInto(@, op)]
                 [] op.op = "assert" -> [engs EXCEPT ![op.e] = AssertInto(@, op)]
                 [] op.op = "assertn" -> [engs EXCEPT ![op.e] = AssertNInto(@, op)]
                 [] op.op = "clear" -> [engs EXCEPT ![op.e] = [InitEng EXCEPT !.ncalls = engs[op.e].ncalls, !.nf = engs[op.e].nf]]
                 [] OTHER -> engs
         rs == CASE op.op = "query" -> Put(runs, op.r, NewRun(op.e, op.goal, op.qnv))
                 [] op.op = "close" -> [runs EXCEPT ![op.r] = [Stop(@, "closed") EXCEPT !.evs = @ \cup {"Close_" \o op.how}]]
                 [] OTHER -> runs IN
     /\ engs' = es /\ runs' = rs
     /\ hist' = Rec(op, Ok, es, rs)
     /\ cur' = NoCur /\ Advance(t) /\ UNCHANGED <<fuel, halted>>

\* next / solve / rest start advancing a run (rest: the consumer's loop over the remaining answers of a
\* query it has already started, collected in one step like solve)
Start(op, t) ==
  /\ op.op \in {"next", "solve", "rest"}
  /\ LET rs == IF op.op = "solve" THEN Put(runs, op.r, NewRun(op.e, op.goal, op.qnv)) ELSE runs
         run == rs[op.r] IN
     /\ runs' = [rs EXCEPT ![op.r].status = IF run.status = "fresh" THEN "run" ELSE "back"]
     /\ cur' = [r |-> op.r, mode |-> IF op.op = "rest" THEN "solve" ELSE op.op, left |-> IF op.op \in {"solve", "rest"} THEN op.k ELSE 0,
                 acc |-> <<>>, op |-> op, t |-> t]
  /\ UNCHANGED <<engs, hist, fuel, halted, pc, tpc>>

Take ==
  /\ cur.r = 0 /\ ~halted /\ pc <= Len(Steps)
  /\ \E i \in DOMAIN Steps[pc] :
        LET op == Steps[pc][i] IN OpEnabled(op) /\ (Imm(op, 0) \/ Start(op, 0))
  /\ UNCHANGED idx

Skip ==
  /\ cur.r = 0 /\ ~halted /\ pc <= Len(Steps)
  /\ \A i \in DOMAIN Steps[pc] : ~OpEnabled(Steps[pc][i])
  /\ pc' = pc + 1
  /\ UNCHANGED <<idx, engs, runs, cur, hist, fuel, halted, tpc>>

\* threads: once the common `steps` prefix is done, any thread may perform its next operation
\* (an operation that is not enabled, e.g. next on a run that has ended, is skipped)
TakeT ==
  /\ cur.r = 0 /\ ~halted /\ Threaded /\ pc > Len(Steps)
  /\ \E t \in DOMAIN Threads :
        /\ tpc[t] <= Len(Threads[t])
        /\ LET op == Threads[t][tpc[t]] IN
           IF OpEnabled(op) THEN (Imm(op, t) \/ Start(op, t))
           ELSE /\ tpc' = [tpc EXCEPT ![t] = @ + 1]
                /\ UNCHANGED <<pc, engs, runs, cur, hist, fuel, halted>>
  /\ UNCHANGED idx

Config(r) == LET run == runs[r] g == engs[run.e] IN
  run @@ [db |-> g.db, nf |-> g.nf, defs |-> g.defs, vari |-> g.vari, ncalls |-> g.ncalls]
RunOf(c) == [k \in DOMAIN runs[cur.r] |-> c[k]]
EngOf(c, g) == [g EXCEPT !.db = c.db, !.nf = c.nf, !.ncalls = c.ncalls]

AnswerOf(c) == CanonSeq([i \in 1..c.qnv |-> Resolve(V(i - 1), c.s)])
WantPy == "py" \in DOMAIN Scn
PyOf(ans) == IF WantPy THEN [i \in DOMAIN ans |-> ToPy(ans[i])] ELSE <<>>
\* the goal's own argument terms as they stand at the answer (a consumer may apply get_value /
\* to_python to the terms it passed in, not only to its variables)
ArgsAt(c) == IF WantPy THEN CanonSeq([i \in DOMAIN c.qargs |-> Resolve(c.qargs[i], c.s)]) ELSE <<>>
PyArgsAt(c) == LET a == ArgsAt(c) IN [i \in DOMAIN a |-> ToPy(a[i])]
SolveObs(answers, end, nlog) ==
  [k |-> "solve", answers |-> answers, end |-> end, nlog |-> nlog,
   pys |-> IF WantPy THEN [i \in DOMAIN answers |-> PyOf(answers[i])] ELSE <<>>]

\* one micro step of the run being advanced, or the delivery of its observation
Micro ==
  /\ cur.r # 0 /\ ~halted
  /\ UNCHANGED idx
  /\ LET r == cur.r
         c0 == Config(r)
         e == c0.e IN
     IF fuel >= MaxSteps
     THEN \* out of fuel: the scenario is cut here; the driver does not execute this call
          /\ hist' = Rec(cur.op, [k |-> "budget", answers |-> cur.acc], engs, runs)
          /\ halted' = TRUE
          /\ UNCHANGED <<pc, engs, runs, cur, fuel, tpc>>
     ELSE
     LET c == IF c0.status = "back" THEN Backtrack([c0 EXCEPT !.status = "run"])
              ELSE StepF(c0) IN
     IF c.status = "run"
     THEN /\ runs' = [runs EXCEPT ![r] = RunOf(c)]
          /\ engs' = [engs EXCEPT ![e] = EngOf(c, @)]
          /\ fuel' = fuel + 1
          /\ UNCHANGED <<pc, cur, hist, halted, tpc>>
     ELSE
     LET es == [engs EXCEPT ![e] = EngOf(c, @)] IN
     /\ engs' = es
     /\ fuel' = fuel + 1
     /\ IF c.status = "answer"
        THEN LET ans == AnswerOf(c)
                 c1 == [c EXCEPT !.status = "susp", !.nans = @ + 1] IN
             IF cur.mode = "next"
             THEN LET rs == [runs EXCEPT ![r] = RunOf(c1)] IN
                  /\ runs' = rs
                  /\ hist' = Rec(cur.op, [k |-> "answer", ans |-> ans, py |-> PyOf(ans), gargs |-> ArgsAt(c), pyargs |-> PyArgsAt(c), nlog |-> c.nlog], es, rs)
                  /\ cur' = NoCur /\ Advance(cur.t) /\ UNCHANGED halted
             ELSE \* solve: collect; after the k-th answer the query is closed
                  IF cur.left = 1
                  THEN LET rs == [runs EXCEPT ![r] = RunOf(Stop(c1, "closed"))] IN
                       /\ runs' = rs
                       /\ hist' = Rec(cur.op, SolveObs(Append(cur.acc, ans), "closed", c.nlog), es, rs)
                       /\ cur' = NoCur /\ Advance(cur.t) /\ UNCHANGED halted
                  ELSE /\ runs' = [runs EXCEPT ![r] = RunOf([c1 EXCEPT !.status = "back"])]
                       /\ cur' = [cur EXCEPT !.acc = Append(@, ans), !.left = IF @ = 0 THEN 0 ELSE @ - 1]
                       /\ UNCHANGED <<pc, hist, halted, tpc>>
        ELSE \* done | raised | cyclic | unspec
             LET rs == [runs EXCEPT ![r] = RunOf(c)]
                 obs == IF cur.mode = "next"
                        THEN [k |-> IF c.status = "done" THEN "stop" ELSE c.status, nlog |-> c.nlog]
                        ELSE SolveObs(cur.acc, IF c.status = "done" THEN "stop" ELSE c.status, c.nlog) IN
             /\ runs' = rs
             /\ hist' = Rec(cur.op, obs, es, rs)
             /\ cur' = NoCur /\ Advance(cur.t)
             /\ halted' = (c.status \in {"cyclic", "unspec"})

Init == /\ idx \in 1..Len(Scns)
        /\ pc = 1
        /\ engs = [e \in 1..Scn.engines |-> InitEng]
        /\ runs = <<>>
        /\ cur = NoCur
        /\ hist = <<>>
        /\ fuel = 0
        /\ halted = FALSE
        /\ tpc = [t \in DOMAIN Threads |-> 1]

Next == Take \/ Skip \/ TakeT \/ Micro
Spec == Init /\ [][Next]_vars
FairSpec == Spec /\ WF_vars(Next)

AllDone == pc > Len(Steps) /\ (Threaded => \A t \in DOMAIN Threads : tpc[t] > Len(Threads[t]))
Finished == halted \/ (cur.r = 0 /\ AllDone)

----------------------------------------------------------------------------
(* Emission of completed behaviours for the replay driver *)
EvsOfRuns == UNION {runs[r].evs : r \in DOMAIN runs}
Emit == Finished => PrintT("@@" \o ToJson([id |-> Scn.id, hist |-> hist, evs |-> EvsOfRuns, fuel |-> fuel]))

----------------------------------------------------------------------------
(* Invariants (evaluated in every micro state) *)

\* C03/C17: a run that has ended holds no bindings and no choice points
CleanAfterEnd ==
  \A r \in DOMAIN runs :
     runs[r].status \in {"done", "closed", "raised"} => runs[r].s = <<>> /\ runs[r].cps = <<>> /\ runs[r].goals = <<>>

\* fact identities are unique per engine and below the allocation counter
FactIdsUnique ==
  \A e \in DOMAIN engs :
    LET g == engs[e]
        all == UNION {{<<k, i>> : i \in DOMAIN g.db[k]} : k \in DOMAIN g.db} IN
    /\ Cardinality({g.db[p[1]][p[2]].id : p \in all}) = Cardinality(all)    \* pairwise different
    /\ \A p \in all : g.db[p[1]][p[2]].id < g.nf

\* every fact is stored under its own key, in canonical (fact-local) form
FactsWellKeyed ==
  \A e \in DOMAIN engs : \A k \in DOMAIN engs[e].db : \A i \in DOMAIN engs[e].db[k] :
     LET f == engs[e].db[k][i] IN KeyOf(f.term) = k /\ Canon(f.term).term = f.term /\ Canon(f.term).nv = f.nv

\* cut barriers and commit heights never point above the choice-point stack
BarriersOK ==
  \A r \in DOMAIN runs : \A i \in DOMAIN runs[r].goals :
     LET f == runs[r].goals[i] IN
     /\ f.cb <= Len(runs[r].cps) + 1
     /\ (f.g.b = "commit" => f.g.B <= Len(runs[r].cps))

\* C14 (logical update view), with the visited fact identities kept as a history in the choice point:
\* an enumeration visits facts of its snapshot only, in snapshot order, each at most once; a fact a
\* retract has returned is gone from the database for good
IsSubseqOf(a, b) == LET as == {a[i] : i \in DOMAIN a} IN a = SelectSeq(b, LAMBDA x : x \in as)
SnapshotsOK ==
  \A r \in DOMAIN runs : \A i \in DOMAIN runs[r].cps :
     LET cp == runs[r].cps[i] IN
     cp.kind \in {"retract", "alts"} =>
        LET ids == [p \in DOMAIN cp.snap |-> cp.snap[p].id] IN
        /\ Cardinality({ids[p] : p \in DOMAIN ids}) = Len(ids)                  \* pairwise different
        /\ Cardinality({cp.seen[p] : p \in DOMAIN cp.seen}) = Len(cp.seen)      \* each at most once
        /\ IsSubseqOf(cp.seen, ids)
        /\ (cp.kind = "retract" =>
              LET now == Get(engs[runs[r].e].db, cp.key) IN
              {cp.seen[p] : p \in DOMAIN cp.seen} \cap {now[p].id : p \in DOMAIN now} = {})


\* C07 (action property, independent of the definitions of the steps): in one step the facts of a
\* key change only by one fresh fact appended at the end, one fresh fact put in front, or removal
\* of facts with the order of the survivors preserved; fact identities are never reused
DbStepShape ==
  [][\A e \in DOMAIN engs :
       /\ engs'[e].nf >= engs[e].nf
       /\ \A k \in DOMAIN engs'[e].db :
            LET old == Get(engs[e].db, k)
                new == engs'[e].db[k] IN
            \/ new = old
            \/ (Len(new) = Len(old) + 1 /\ SubSeq(new, 1, Len(old)) = old /\ new[Len(new)].id = engs[e].nf)
            \/ (Len(new) = Len(old) + 1 /\ Tail(new) = old /\ new[1].id = engs[e].nf)
            \/ LET n == Len(new) - Len(old) IN     \* the API step that fills a table: n single assertions in a row
                 /\ n > 1 /\ Len(hist') = Len(hist) + 1 /\ hist'[Len(hist')].op.op = "assertn" /\ hist'[Len(hist')].op.n = n
                 /\ \/ SubSeq(new, 1, Len(old)) = old /\ \A i \in 1..n : new[Len(old) + i].id = engs[e].nf + i - 1
                    \/ SubSeq(new, n + 1, Len(new)) = old /\ \A i \in 1..n : new[i].id = engs[e].nf + n - i
            \/ new = SelectSeq(old, LAMBDA f : \E i \in DOMAIN new : new[i].id = f.id)]_vars

\* C14 (temporal, under weak fairness of Next, on families whose searches are finite by design):
\* every scenario comes to its end, and it does so without the machine running out of fuel, i.e. the
\* update loops of the scenario terminate in the specification itself
Termination == <>Finished
NeverOutOfFuel ==
  \A i \in DOMAIN hist : hist[i].obs.k # "budget" /\ (hist[i].obs.k = "solve" => hist[i].obs.end # "budget")

\* C01/C05/C06: where the scenario carries reference answers (computed by the denotational
\* semantics of Control.tla, or taken from the textbook corpus), the machine's answers to
\* the designated solve step are exactly those, in order
AnswersAreSLD ==
  (~halted /\ cur.r = 0 /\ AllDone /\ "sem" \in DOMAIN Scn) =>
     \A i \in DOMAIN Scn.sem :
        LET h == hist[Scn.sem[i].step] IN
        /\ h.obs.k = "solve"
        /\ h.obs.answers = Scn.sem[i].answers
        /\ h.obs.end = Scn.sem[i].end
=============================================================================
