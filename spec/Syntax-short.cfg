INIT ShortInit
NEXT Stutter
CONSTANTS MaxLen = 3
Shard = 0
Shards = 1
INVARIANT EmitIn
CHECK_DEADLOCK FALSE
