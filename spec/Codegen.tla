------------------------------ MODULE Codegen ------------------------------
(***************************************************************************)
(* Implementation-shaped model of YPPrologCompiler.compile_body and of the *)
(* Python meaning of the control flow it emits, with the refinement        *)
(* statement  Exec(Compile(clauses)) = Control!SemPred(clauses).           *)
(*                                                                         *)
(* Comp transcribes the rewrite system case by case (including the $CUTIF  *)
(* pseudo goal and label allocation) into the IR                           *)
(*   foreach(leaf, code) | yield | return | block(label, code) |           *)
(*   breakblock(label)                                                     *)
(* Exec gives the IR its Python meaning: `for l in query(..)`, `break`     *)
(* leaves the innermost loop, the `if doBreak: break` emitted after every  *)
(* loop, the flag reset at the end of a block, `return` ends the function  *)
(* (so later clauses, which live in the same function, are skipped).       *)
(*                                                                         *)
(* The module also drives the enumeration of body trees for the C05/C06    *)
(* checks: every (clauses, cnt) instance is printed with its reference     *)
(* answers, and the checks run it through the machine and the real code.   *)
(***************************************************************************)
EXTENDS Control, Json

CONSTANTS MaxNodes,     \* nodes of the first clause body
          MaxNodes2,    \* nodes of the second clause body (0: single clause)
          MaxSol,       \* leaf solution counts 0..MaxSol
          Shard, Shards, \* this run handles instances whose hash mod Shards = Shard
          EmitIR        \* also print the intermediate code of the model
LN == {1, 2}
CutIf(n) == [b |-> "cutif", label |-> n]

RECURSIVE Comp(_,_)
Ret(code, n) == [code |-> code, n |-> n]
Comp(b, n) ==
  CASE b.b = "and" ->
        (CASE b.l.b = "cutif" -> LET r == Comp(b.r, n) IN Ret(r.code \o <<[k |-> "breakblock", label |-> b.l.label]>>, r.n)
           [] b.l.b = "leaf" -> LET r == Comp(b.r, n) IN Ret(<<[k |-> "foreach", j |-> b.l.j, o |-> b.l.o, code |-> r.code]>>, r.n)
           [] b.l.b = "cut" -> LET r == Comp(b.r, n) IN Ret(r.code \o <<[k |-> "return"]>>, r.n)
           [] b.l.b = "not" -> Comp(And(Or(Then(b.l.g, FailB), TrueB), b.r), n)
           [] b.l.b = "and" -> Comp(And(b.l.l, And(b.l.r, b.r)), n)
           [] b.l.b = "or" -> IF b.l.l.b = "then"
                              THEN Comp(Or(Then(b.l.l.c, And(b.l.l.t, b.r)), And(b.l.r, b.r)), n)
                              ELSE Comp(Or(And(b.l.l, b.r), And(b.l.r, b.r)), n)
           [] b.l.b = "then" -> Comp(And(Or(Then(b.l.c, b.l.t), FailB), b.r), n)
           [] b.l.b = "true" -> Comp(b.r, n)
           [] b.l.b = "fail" -> Ret(<<>>, n))
    [] b.b = "or" ->
        IF b.l.b = "then"
        THEN LET lab == n + 1
                 r == Comp(Or(And(b.l.c, And(CutIf(lab), b.l.t)), b.r), lab) IN
             Ret(<<[k |-> "block", label |-> lab, code |-> r.code]>>, r.n)
        ELSE LET l == Comp(b.l, n) r == Comp(b.r, l.n) IN Ret(l.code \o r.code, r.n)
    [] b.b = "then" -> Comp(And(b, TrueB), n)
    [] b.b = "leaf" -> Comp(And(b, TrueB), n)
    [] b.b = "cutif" -> Ret(<<[k |-> "breakblock", label |-> b.label]>>, n)
    [] b.b = "not" -> Comp(And(b, TrueB), n)
    [] b.b = "fail" -> Comp(And(b, TrueB), n)
    [] b.b = "true" -> Ret(<<[k |-> "yield"]>>, n)
    [] b.b = "cut" -> Ret(<<[k |-> "yield"], [k |-> "return"]>>, n)

\* state st = [ans, doBreak, lab]; result [st, sig], sig in {"next","break","return"}
RECURSIVE ExecList(_,_,_,_,_), ExecLoop(_,_,_,_,_)
ExecStmt(s, cnt, path, st) ==
  CASE s.k = "yield" -> [st |-> [st EXCEPT !.ans = Append(@, path)], sig |-> "next"]
    [] s.k = "return" -> [st |-> st, sig |-> "return"]
    [] s.k = "breakblock" -> [st |-> [st EXCEPT !.lab = (s.label :> TRUE) @@ @, !.doBreak = TRUE], sig |-> "break"]
    [] s.k = "foreach" ->
         LET r == ExecLoop(s, 1, cnt, path, st) IN
         IF r.sig = "return" THEN r
         ELSE IF r.st.doBreak THEN [st |-> r.st, sig |-> "break"] ELSE [st |-> r.st, sig |-> "next"]
    [] s.k = "block" ->
         LET st0 == [st EXCEPT !.lab = (s.label :> FALSE) @@ @]
             r == IF s.code = <<>> THEN [st |-> st0, sig |-> "next"] ELSE ExecList(s.code, 1, cnt, path, st0) IN
         IF r.sig = "return" THEN r
         ELSE LET st1 == IF r.st.lab[s.label] THEN [r.st EXCEPT !.doBreak = FALSE] ELSE r.st IN
              IF st1.doBreak THEN [st |-> st1, sig |-> "break"] ELSE [st |-> st1, sig |-> "next"]
ExecList(code, i, cnt, path, st) ==
  IF i > Len(code) THEN [st |-> st, sig |-> "next"]
  ELSE LET r == ExecStmt(code[i], cnt, path, st) IN
       IF r.sig = "next" THEN ExecList(code, i+1, cnt, path, r.st) ELSE r
ExecLoop(s, i, cnt, path, st) ==
  IF i > cnt[s.j] THEN [st |-> st, sig |-> "next"]
  ELSE LET body == IF s.code = <<>> THEN [st |-> st, sig |-> "next"]
                   ELSE ExecList(s.code, 1, cnt, Append(path, <<s.o, i>>), st) IN
       IF body.sig = "return" THEN body
       ELSE IF body.sig = "break" THEN [st |-> body.st, sig |-> "next"]
       ELSE ExecLoop(s, i+1, cnt, path, body.st)

RECURSIVE CompClauses(_,_,_)
CompClauses(cls, i, n) ==
  IF i > Len(cls) THEN <<>> ELSE LET r == Comp(cls[i], n) IN r.code \o CompClauses(cls, i+1, r.n)
ExecFun(cls, cnt) ==
  LET code == CompClauses(cls, 1, 0) IN
  IF code = <<>> THEN <<>>
  ELSE ExecList(code, 1, cnt, <<>>, [ans |-> <<>>, doBreak |-> FALSE, lab |-> <<>>]).st.ans

----------------------------------------------------------------------------
VARIABLES body, body2, cnt
Bodies(N) == UNION {T(n, FALSE, LN) : n \in 1..N}
Init == /\ body \in Bodies(MaxNodes)
        /\ body2 \in (IF MaxNodes2 = 0 THEN {TrueB} ELSE Bodies(MaxNodes2))
        /\ cnt \in [LN -> 0..MaxSol]
Next == UNCHANGED <<body, body2, cnt>>
Spec == Init /\ [][Next]_<<body, body2, cnt>>

\* the predicate under test: the clause bodies, numbered, followed by a marker clause (a
\* leaf with one solution and its own occurrence number) that shows whether a cut ended
\* the predicate
N1 == Number(body, 1)
N2 == IF MaxNodes2 = 0 THEN [b |-> TrueB, k |-> N1.k] ELSE Number(body2, N1.k)
Marker == [b |-> "leaf", j |-> 0, o |-> N2.k]
Clauses == IF MaxNodes2 = 0 THEN <<N1.b, Marker>> ELSE <<N1.b, N2.b, Marker>>
NOcc == N2.k
Cnt == (0 :> 1) @@ cnt

CodegenRefinesControl == ExecFun(Clauses, Cnt) = SemPred(Clauses, 1, Cnt)

Mine == Shards = 1 \/ (Len(ToString(<<body, body2>>)) + cnt[1] * 3 + cnt[2] * 7) % Shards = Shard
EmitInstance ==
  Mine => LET ref == SemPred(Clauses, 1, Cnt) IN
          PrintT("@@" \o ToJson([clauses |-> Clauses, cnt |-> <<cnt[1], cnt[2]>>, nocc |-> NOcc,
                                 sem |-> [i \in DOMAIN ref |-> Tuple(ref[i], NOcc)],
                                 \* the IR this model says compile_body produces (compared with the real one: drift report)
                                 ir |-> IF EmitIR THEN CompClauses(Clauses, 1, 0) ELSE <<>>]))
=============================================================================
