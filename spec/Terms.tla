------------------------------- MODULE Terms -------------------------------
(***************************************************************************)
(* Data of the yldprolog specification: terms, substitutions, unification. *)
(*                                                                         *)
(*   atom      [t |-> "a", n |-> name]                                     *)
(*   integer   [t |-> "i", n |-> canonical decimal string]                 *)
(*   variable  [t |-> "v", id |-> Nat]                                     *)
(*   compound  [t |-> "c", n |-> name, a |-> Seq(Term)]   (Len(a) >= 1)    *)
(*                                                                         *)
(* Lists are "."/2 and the atom "[]".  The JSON image of a term is the     *)
(* same record, so terms travel between TLC and the Python drivers         *)
(* without translation tables.                                             *)
(*                                                                         *)
(* A substitution is a function from variable ids to terms (triangular     *)
(* form: Walk follows chains).                                             *)
(***************************************************************************)
EXTENDS Naturals, Sequences, FiniteSets, TLC

A(n) == [t |-> "a", n |-> n]
I(n) == [t |-> "i", n |-> n]
V(i) == [t |-> "v", id |-> i]
C(n, args) == [t |-> "c", n |-> n, a |-> args]

NIL == A("[]")
Cons(h, t) == C(".", <<h, t>>)

IsVar(t)      == t.t = "v"
IsAtom(t)     == t.t = "a"
IsInt(t)      == t.t = "i"
IsCompound(t) == t.t = "c"
Callable(t)   == t.t \in {"a", "c"}

NameOf(t) == t.n
ArgsOf(t) == IF t.t = "c" THEN t.a ELSE <<>>
Mk(n, args) == IF args = <<>> THEN A(n) ELSE C(n, args)
Arity(t) == Len(ArgsOf(t))
KeyStr(n, k) == n \o "/" \o ToString(k)
KeyOf(t) == KeyStr(t.n, Arity(t))

EmptySubst == <<>>

RECURSIVE Walk(_,_)
Walk(t, s) == IF t.t = "v" /\ t.id \in DOMAIN s THEN Walk(s[t.id], s) ELSE t

RECURSIVE Resolve(_,_)
Resolve(t, s) ==
  LET w == Walk(t, s) IN
  IF w.t = "c" THEN [w EXCEPT !.a = [i \in DOMAIN w.a |-> Resolve(w.a[i], s)]] ELSE w

RECURSIVE Shift(_,_)
Shift(t, off) ==
  IF t.t = "v" THEN V(t.id + off)
  ELSE IF t.t = "c" THEN [t EXCEPT !.a = [i \in DOMAIN t.a |-> Shift(t.a[i], off)]]
  ELSE t

RECURSIVE Ground(_)
Ground(t) == IF t.t = "v" THEN FALSE
             ELSE IF t.t = "c" THEN \A i \in DOMAIN t.a : Ground(t.a[i]) ELSE TRUE

RECURSIVE VarsOf(_)
VarsOf(t) == IF t.t = "v" THEN {t.id}
             ELSE IF t.t = "c" THEN UNION {VarsOf(t.a[i]) : i \in DOMAIN t.a} ELSE {}

RECURSIVE MkList(_)
MkList(s) == IF s = <<>> THEN NIL ELSE Cons(Head(s), MkList(Tail(s)))

(***************************************************************************)
(* Unification: worklist algorithm.  The result is a record                *)
(*   [fail, cyc, s]                                                        *)
(* fail = FALSE: s is the extension of the input substitution by an mgu.   *)
(* cyc = TRUE: a solution would need a cyclic term.  The properties leave  *)
(* these cases open ("as in Prolog without occurs check"), so the machine  *)
(* stops with status "cyclic" and the drivers skip the scenario.           *)
(***************************************************************************)
NoU  == [fail |-> TRUE, cyc |-> FALSE, s |-> <<>>]
CycU == [fail |-> TRUE, cyc |-> TRUE,  s |-> <<>>]

\* Occurs(id, t, s): the unbound variable id occurs in t under s.  Computed as reachability over
\* variable ids (linear in the number of variables): substitutions share subterms (X = g(Y,Y),
\* Y = g(Z,Z), ...) and a walk over the expanded term would be exponential.
RECURSIVE Reach(_,_,_)
Reach(frontier, seen, s) ==
  IF frontier = {} THEN seen
  ELSE LET new == (UNION {IF v \in DOMAIN s THEN VarsOf(s[v]) ELSE {} : v \in frontier}) \ seen IN
       Reach(new, seen \cup new, s)
Occurs(id, t, s) == LET v0 == VarsOf(t) IN id \in Reach(v0, v0, s)

\* number of nodes of the term t stands for under s, counted only up to a budget b (returns what is
\* left of the budget; 0 = the term has at least b nodes).  Used to leave searches that build terms of
\* exponential size unspecified instead of expanding them.
RECURSIVE SizeLeft(_,_,_)
SizeLeft(t, s, b) ==
  IF b = 0 THEN 0
  ELSE LET w == Walk(t, s) IN
       IF w.t = "c"
       THEN LET F[i \in 0..Len(w.a)] == IF i = 0 THEN b - 1 ELSE SizeLeft(w.a[i], s, F[i-1]) IN F[Len(w.a)]
       ELSE b - 1
TooBig(t, s) == SizeLeft(t, s, 3000) = 0

RECURSIVE U(_,_)
Bind(id, b, rest, s) ==
  IF b.t = "c" /\ Occurs(id, b, s) THEN CycU ELSE U(rest, (id :> b) @@ s)
U(work, s) ==
  IF work = <<>> THEN [fail |-> FALSE, cyc |-> FALSE, s |-> s]
  ELSE LET a == Walk(work[1][1], s)
           b == Walk(work[1][2], s)
           rest == Tail(work) IN
    IF a.t = "v" THEN (IF b.t = "v" /\ a.id = b.id THEN U(rest, s) ELSE Bind(a.id, b, rest, s))
    ELSE IF b.t = "v" THEN Bind(b.id, a, rest, s)
    ELSE IF a.t = "c"
         THEN (IF b.t = "c" /\ a.n = b.n /\ Len(a.a) = Len(b.a)
               THEN U([i \in 1..Len(a.a) |-> <<a.a[i], b.a[i]>>] \o rest, s)
               ELSE NoU)
    ELSE IF a = b THEN U(rest, s) ELSE NoU

MGU(a, b, s) == U(<< <<a, b>> >>, s)
MGUSeq(as, bs, s) ==
  IF Len(as) # Len(bs) THEN NoU ELSE U([i \in 1..Len(as) |-> <<as[i], bs[i]>>], s)

(***************************************************************************)
(* Canonical renaming: unbound variables numbered 0.. by first occurrence  *)
(* (left to right, depth first).  Two terms are equal "up to renaming of   *)
(* unbound variables, including aliasing between them" iff their Canon     *)
(* images are equal.  The Python projection does the same by object        *)
(* identity.                                                               *)
(***************************************************************************)
RECURSIVE VarSeq(_,_)
VarSeq(t, acc) ==
  IF t.t = "v" THEN (IF \E i \in DOMAIN acc : acc[i] = t.id THEN acc ELSE Append(acc, t.id))
  ELSE IF t.t = "c"
       THEN LET F[i \in 0..Len(t.a)] == IF i = 0 THEN acc ELSE VarSeq(t.a[i], F[i-1]) IN F[Len(t.a)]
  ELSE acc

RECURSIVE Rename(_,_)
Rename(t, vs) ==
  IF t.t = "v" THEN V((CHOOSE i \in DOMAIN vs : vs[i] = t.id) - 1)
  ELSE IF t.t = "c" THEN [t EXCEPT !.a = [i \in DOMAIN t.a |-> Rename(t.a[i], vs)]]
  ELSE t

Canon(t) == LET vs == VarSeq(t, <<>>) IN [term |-> Rename(t, vs), nv |-> Len(vs)]

\* canonical image of a tuple of terms (shared numbering across the tuple)
CanonSeq(ts) ==
  IF ts = <<>> THEN <<>> ELSE Canon(C("$", ts)).term.a

(***************************************************************************)
(* to_python: atoms to their names, "[]" to the empty list, integers to    *)
(* ints, proper lists to lists, compound terms not named "." to            *)
(* (name, argument list), unbound variables to None.  Anything else        *)
(* (improper lists, "." with another arity) is unspecified.                *)
(* JSON image: {"s":name} {"i":digits} {"l":[..]} {"f":name,"a":[..]}      *)
(*             {"none":TRUE} {"unspec":TRUE}                               *)
(***************************************************************************)
PyUnspec == [unspec |-> TRUE]
RECURSIVE ToPy(_)
ToPy(t) ==
  CASE t.t = "v" -> [none |-> TRUE]
    [] t.t = "i" -> [i |-> t.n]
    [] t.t = "a" -> IF t.n = "[]" THEN [l |-> <<>>] ELSE [s |-> t.n]
    [] t.t = "c" ->
         IF t.n = "."
         THEN (IF Len(t.a) # 2 THEN PyUnspec
               ELSE LET h == ToPy(t.a[1]) tl == ToPy(t.a[2]) IN
                    IF "l" \in DOMAIN tl /\ "unspec" \notin DOMAIN h THEN [l |-> <<h>> \o tl.l] ELSE PyUnspec)
         ELSE LET args == [i \in DOMAIN t.a |-> ToPy(t.a[i])] IN
              IF \E i \in DOMAIN args : "unspec" \in DOMAIN args[i] THEN PyUnspec
              ELSE [f |-> t.n, a |-> args]
=============================================================================
