"""writes MANIFEST.json from the table below (python3 -m harness.manifest)"""
import json
import os

VERIF = os.path.dirname(os.path.dirname(os.path.abspath(__file__)))

NOTE = ("Trusted base: TLC 1.8 and the TLA+ modules under spec/; the projection and term renderer of the "
        "Python drivers (harness/real.py, harness/terms.py); CPython. Bounds are those stated in the evidence file.")

CHECKS = {
    "C07": dict(
        text=("TLC enumerates every history over a menu of database operations (asserta/assertz/assert_fact/retract run to "
              "exhaustion or abandoned/retractall/clear/query; ground, partial, zero-arity and never-asserted patterns) to depth 3-4 "
              "on the TLA+ machine spec/YP.tla, checks the machine invariants in every micro state, and prints each history with the "
              "predicted answers and database contents after every step; every history is replayed on the real engine through three "
              "invocation routes (Python API, compiled clause, goal in a run-time bound variable) and the full contents of every key are "
              "read back after every step."),
        technique="TLC-enumerated histories of the TLA+ engine machine replayed step by step on the real engine",
        ref="5/C07"),
    "C05": dict(
        text=("TLC enumerates all clause bodies up to 5 (thorough: 6) nodes over {leaf, true, fail, !, ',', ';', '->', '\\+'} with cuts in transparent "
              "positions x leaf solution counts 0..2 x one- and two-clause predicates followed by a marker clause, checks on spec/Codegen.tla that the model "
              "of the emitted control flow refines the denotational semantics spec/Control.tla, runs every instance through the machine spec/YP.tla "
              "(invariant AnswersAreSLD: machine = denotational semantics, in every state the cut-barrier invariants) and replays every behaviour on the "
              "real compiler+engine, in two renderings, comparing every answer tuple (each leaf binds its own variable, so an answer spells the path) - "
              "also from a caller with alternatives before and after the call."),
        technique="TLC-enumerated body trees; two TLA+ formulations cross-checked; behaviours replayed on compiler+engine",
        ref="5/C05"),
    "C06": dict(
        text=("Same pipeline as C05 over every body containing ';', '->' or '\\+' (nesting to 5/6 nodes, constructs in every position of a conjunction, "
              "with cuts in branches); the fully parenthesised and the minimally parenthesised rendering of the same tree must both give the answers "
              "the specification predicts, which binds the grammar's precedence and associativity; negation is checked to bind nothing through the answer tuples."),
        technique="TLC-enumerated body trees; two TLA+ formulations cross-checked; behaviours replayed on compiler+engine",
        ref="5/C06"),
    "C01": dict(
        text=("The TLA+ machine spec/YP.tla (clause selection in order, renaming apart at every activation, conjunction, =, \\=, true, fail) predicts the "
              "answer sequence of every query; TLC checks the machine against published answers of a textbook corpus (AnswersAreSLD) and its invariants in "
              "every micro state; every predicted behaviour is replayed on the real compiler+engine: same bindings up to renaming incl. aliasing, same order and "
              "multiplicity, end of enumeration at the same point, no exception, termination within a call budget. Families: all head shapes x call modes for arity <= 2, "
              "fresh-variable programs, seeded random programs of the fragment."),
        technique="TLA+ abstract machine as oracle (validated by TLC against a corpus); enumerated and random programs replayed on compiler+engine",
        ref="5/C01"),
    "C09": dict(
        text=("spec/YP.tla defines call/N, once/1, findall/3, = and \\= by their standard definitions as machine steps; enumerated: goal shape (inline atom/compound, "
              "variable bound at run time, chain of two variables) x extra arguments 0..2 x solution count 0..3 x position (alone, followed by a goal, condition, "
              "under negation) x route (compiled clause, yp.query on the builtin), findall templates/bags of several shapes, plus random programs using the builtins; "
              "every behaviour replayed on the real code, no exception may escape."),
        technique="TLA+ abstract machine as oracle; enumerated builtin scenarios and random programs replayed on compiler+engine",
        ref="5/C09"),
    "C13": dict(
        text=("spec/YP.tla stores Canon(Resolve(term)) at assert and renames facts apart at every use; enumerated: term shapes x binding histories of their variables "
              "(before directly / through a chain / inside a structure / after the assert / alias / backtracked) x later uses (ground, partial, variable patterns, two uses "
              "in one body, uses inside the asserting clause, assert_fact from Python with live variables of a suspended query that then moves on); database contents "
              "read back after every step; plus random programs with database builtins."),
        technique="TLA+ abstract machine as oracle; enumerated assert/binding histories replayed on compiler+engine",
        ref="5/C13"),
    "C14": dict(
        text=("spec/YP.tla takes a snapshot of the facts when a call or retract starts, removes by fact identity and skips facts already removed; TLC enumerates every "
              "interleaving (to depth 3-4 after the first answer) of two suspended enumerations with asserta/assertz/retract/retractall on the same predicate, and ~1000 small "
              "bodies that update a predicate between two answers of its enumeration incl. the drain loop and the counter loop; answers, database after every step, and "
              "termination within a call budget derived from the spec's step count are compared on the real engine."),
        technique="TLC-enumerated interleavings of suspended enumerations and updates on the TLA+ machine, replayed on the real engine",
        ref="5/C14"),
    "C15": dict(
        text=("The machine's observation at an answer is the fully resolved term and its to_python image (Terms!ToPy); on the code the driver reads engine.get_value / "
              "engine.to_python of every query variable at every answer, saves them, and re-reads the saved values after the query ended (a ground answer must be the "
              "same term with no variable inside). Enumerated: every order of binding a variable and the variables inside its value (outer first, inner first, chains), "
              "read directly, through findall, through assertz + later query; plus random programs."),
        technique="TLA+ machine + executable to_python definition as oracle; public accessors observed at and after every answer",
        ref="5/C15"),
    "C03": dict(
        text=("TLC checks CleanAfterEnd in every micro state of spec/YP.tla and enumerates, after every answer, the environment's choice between next and four ways "
              "of abandoning the query (close, drop, consumer raises in its loop, break), and every (invocation, yielded rows) raise point of a native predicate under "
              "conjunction, if-then-else, negation, findall, once; each behaviour is replayed on the code: whenever the specification has no suspended query every Variable "
              "ever created (registry hook) must be unbound after the abandoning call returned, each answer must be exactly the predicted one, and the same query run again "
              "must give the predicted answers. Programs: fixed programs over all constructs and builtins incl. retract, body trees with cut/;/->/\\+, random programs."),
        technique="TLC-enumerated abandonment and raise points on the TLA+ machine; replay with Variable-registry inspection",
        ref="5/C03"),
    "C04": dict(
        text=("spec/YP.tla in threads mode: each engine follows a script of API/generator steps (load, assert, retract, register, clear, query, next, close/drop); TLC "
              "enumerates EVERY interleaving of every chosen pair of scripts and predicts observation and database of ALL engines after every step; each interleaving is "
              "replayed on one OS thread, with one OS thread per script and a baton handing over at the enumerated points, and with free-running threads under a 1us switch "
              "interval whose per-thread observations must equal the alone-behaviour; within one engine two suspended side-effect-free queries are interleaved in every way."),
        technique="TLC-enumerated interleavings of per-engine scripts; replay on one thread, baton threads and free-running threads",
        ref="5/C04"),
    "C08": dict(
        text=("spec/YP.tla keeps per engine defs: key -> Seq(definition) and variadic registrations; a call is resolved when it is made to facts (snapshot) then the "
              "definitions of exactly that arity in load order, each with its own cut barrier; TLC enumerates every history to depth 2-3 (sampled 3-4) over load with/without "
              "overwrite of four overlapping scripts, failing loads (raise at top level, syntax error), register (inferred/explicit/variadic), assert, clear; after every action "
              "eight probe queries (same name other arity, reserved name, unknown predicate, late-bound callee, prefix-similar names) are compared; plus histories that change "
              "definitions while a call is suspended between two answers."),
        technique="TLC-enumerated load/register/assert/clear histories on the TLA+ machine with probe queries, replayed on the real engine",
        ref="5/C08"),
    "C20": dict(
        text=("In spec/YP.tla a definition is a clause list or a native predicate; for body-tree instances (cut, ;, ->, \\+ contexts) every non-empty subset of the fact "
              "predicates is replaced by a registered Python generator written from the same rows (inferred/explicit/variadic registration, yield True/False, next to a dynamic "
              "fact); TLC checks the machine with natives still yields the reference answers of spec/Control.tla; replayed on the engine with the arguments the function receives "
              "compared with the machine's log and tagged exceptions required to reach the consumer as the same object (also under call/N, once, findall, negation)."),
        technique="TLA+ machine with native definitions checked against the denotational reference; replay with argument log and exception identity",
        ref="5/C20"),
    "C17": dict(
        text=("spec/EvalBounded.tla models the call as actions over the interpreter-wide limit (Begin/Answer/ProjRaise/silent Overflow anywhere/Exhausted/End) and is "
              "model-checked (LimitRestored, BoundedIsPrefix, ReturnsEverythingWhenShallow); the machine spec/YP.tla predicts the unbounded answer sequence of each query "
              "(finite flat, deep, left-recursive, infinitely many answers, under negation/findall/if-then-else); the real evaluate_bounded is run for a sweep of recursion "
              "limits (every 3rd / every value) x projection raising at answer k, each call recorded as a trace and validated by TLC against the model: result a prefix of "
              "the reference, complete when the measured depth is below the limit, limit restored, registry clean, only the projection's own exception may escape."),
        technique="recorded evaluate_bounded traces over a recursion-limit sweep validated by TLC against a TLA+ model; reference answers from the TLA+ machine",
        ref="5/C17", category="model_checking"),
    "C10": dict(
        text=("spec/Syntax.tla is an independent recogniser of the token-level language of prolog.g4 with a sentence generator (Derive) and single-edit corruptions; "
              "TLC classifies every token string up to length 4 (thorough 5; a 1/16 shard chosen by the seed) over 21 token kinds + 2 pseudo kinds, derives every sentence up to "
              "7-8 tokens (invariant GeneratorSound) and enumerates every single-edit corruption (delete, insert each kind, duplicate, swap, truncate, foreign character, opened "
              "quote) of sampled sentences; each string is rendered and compiled: outside the language => must raise; inside and accepted => the def lines of the output equal "
              "the clause heads spec/Syntax.tla!ClauseInfo finds."),
        technique="TLA+ recogniser/generator of the grammar's language; TLC-enumerated strings and corruptions compiled by the real compiler",
        ref="5/C10"),
    "C11": dict(
        text=("spec/Emitted.tla!DefinesExactly evaluated by TLC on records of the compiler's output (projected Python AST, names added by loading, generator flags, a query per "
              "predicate) for programs with boundary lexemes in every position (numeral spellings, variables named like Python constants/engine/internal names, atoms that are "
              "Python keywords, quoted atoms), never-succeeding and empty bodies, conjunction chains 1..100, if-then-else depth 12, term depth 200, lists of 2000, and sentences "
              "derived by spec/Syntax.tla rendered with boundary lexemes. Evaluator use of TLC: the deciding artefact is the explicit relation."),
        technique="explicit TLA+ relation between source and emitted AST, evaluated by TLC on recorded compiler output",
        ref="5/C11"),
    "C12": dict(
        text=("spec/Emitted.tla!EmittedOK (node-kind whitelist, call targets, constants only from the source, no capture of engine names, reads only of params/locals/engine "
              "names, function names = head keys, silent audit hook while loading and querying) evaluated by TLC on recorded output for hostile lexemes in every syntactic "
              "position incl. the generator's internal pseudo goal; spec/YP.tla!DoCallReserved replayed for 31 reserved/builtin names x arities x routes (query, compiled body, "
              "call/N, dynamic fact under a reserved name); probe of the globals and __builtins__ visible to loaded code."),
        technique="explicit TLA+ shape relation evaluated by TLC on recorded compiler output; reserved-name behaviours of the TLA+ machine replayed",
        ref="5/C12"),
    "C02": dict(
        text=("spec/UnifyGen.tla is an implementation-shaped model of engine.unify (binding cells with stale values, generator objects with program counters, try/finally, "
              "unify_arrays holding sub-generators open); TLC checks on it YieldIffUnifiable, AtYieldBothSidesEqual, AtYieldIsMGU (against the reference Terms!MGU), "
              "AtMostOneYield, AllUnboundAfterEnd, GetValueIsResolve and RefSymmetric/RefIsUnifier for all ordered pairs of ~100 terms of depth <= 1 (atoms, int, f/1, f/2, g/1, "
              "lists, three variables) x 7 (thorough 21) stacks of earlier still-active unifications; each of the ~66k start states is replayed on the real unify with real "
              "objects, the stack held open as real suspended generators, three ways (exhaust, close, drop)."),
        technique="implementation-shaped TLA+ model of the unify generators model-checked against a reference mgu; all start states replayed on the real unify",
        ref="5/C02"),
    "C16": dict(
        text=("spec/Literals.tla gives executable definitions of what a literal denotes (Unquote, NumeralValue, list/list-pair folding, `_` fresh) and of to_python; TLC "
              "evaluates them on observations of the real compiler+engine for enumerated boundary literals and thousands of seeded random ones (all Unicode planes, quotes, "
              "newlines, nested compounds, lists, list pairs, 40-digit integers) in fact, rule-head and body position: the term obtained, to_python of it, unification with "
              "the same term built through atom/functor/listpair/makelist in the same and in a second engine, atom identity per engine. Evaluator use of TLC."),
        technique="executable TLA+ definitions of literal denotation and to_python evaluated by TLC on recorded observations",
        ref="5/C16"),
    "C18": dict(
        text=("spec/Determinism.tla defines the configuration space (program x string-hash seed incl. random x compilations before it in the same process: fresh, forward, "
              "reverse, repeat) and the property; TLC enumerates the configurations, the real compiler runs in subprocesses under each, TLC decides Deterministic and Covered "
              "on the recorded output hashes. Programs: hand-made ones with many first-occurrence variables / anonymous variables / several if-then-else, and random programs."),
        technique="TLC-enumerated configuration space; outputs of the real compiler under each configuration compared by TLC",
        ref="5/C18"),
    "C19": dict(
        text=("spec/Cli.tla models the command line as a writer process and is model-checked for all 16 flag sets x 8 source lists (CliEqualsLibrary, OnlyCommentsAdded, "
              "NonZeroOnError; the variant without per-line prefixing of debug messages fails, which is how the pinned defect shows in the model); the real `python -m "
              "yldprolog.compiler` and `yldpc` are run for every configuration TLC prints x stdout/-o x file/stdin with concrete programs (plain, embedded newline, embedded "
              "carriage return, non-ASCII, two kinds of syntax error, non-callable goal) and TLC decides the same predicates on the recorded runs."),
        technique="TLA+ model of the CLI writer process model-checked; recorded runs of the real CLI validated by TLC",
        ref="5/C19"),
}

PENDING = {}

EXTRA = {
    "C01": " Answers are also read through engine.get_value/to_python like a consumer. Further families: predicates of 3-4 clauses whose heads reuse variable names in different positions and nestings, every .prolog file of the repository (read with the repository's own parser) incl. the README query, programs using the grammar's operator syntax, and a 'decorated' rendering (comments, directives, tabs, CRLF) that must not change any answer. Code->spec as well: the repository's 61 tests are run with every public API call recorded by a pytest plugin (no change to the repository) and each trace is decided by spec/YP.tla. Scale cases (arity 300, 300 zero-argument goals per file, chains of 80 variable links, call/12), once-only variables written `_` next to variables spelled like generated names, terms that print alike, predicates named like engine keys or control words; a CompilerLimitError for clauses far below the documented limits is a violation.",
    "C02": " The vocabulary includes the zero-argument compound f(); after the three runs of each start state every variable is unified with a new atom to detect state left behind by an undone unification (path compression, caches); get_value is read at every yield. Compounds named '.' with other arities; arity above 256; unifications created early and advanced while another one is at its answer.",
    "C03": " Also: every raise point of the projection function of evaluate_bounded, validated against spec/EvalBounded.tla. After every replayed step: answers of suspended queries unchanged (live), values returned by ended queries unchanged (frozen), recursion limit unchanged. Python tuples/named tuples/bytes as constants under DEBUG logging; BaseException kinds raised by the consumer; every start state of spec/UnifyGen.tla.",
    "C04": " One-engine scenarios include non-ground dynamic facts used by two suspended queries at once; a free-running two-thread stress run over facts with repeated variables compares each thread with the prediction for its engine alone. One script above 32 KiB in both engines; one fact of several hundred nodes under three queries; loads that fail under the interpreter's default limit; two different scripts with equal name, length and CRC-32.",
    "C05": " A further family of seeded random bodies of 7-15 nodes over generators and tests on SHARED variables (so that a condition's outcome differs between entries of a construct) is checked against the machine; spec/Codegen.tla's intermediate code is compared with the real compile_body's on every enumerated single-clause instance (drift report in the evidence). Predicates of 300 clauses with cuts; several hundred cut-abandoned goals followed by evaluate_bounded; scope of a cut across arities, API-asserted facts, Python predicates and chained definitions.",
    "C06": " A further family of seeded random bodies of 7-15 nodes over generators and tests on SHARED variables (nested if-then-else/negation inside conditions, re-entered by generator goals) is checked against the machine; Codegen drift report as in C05. All 1524 combinations of a small inner construct re-entered per answer of a generator inside an outer construct; predicates with twenty and more constructs; print-alike terms as goals; user predicates named `not`.",
    "C07": " Also several database operations inside one clause body between two answers of an enumeration (the C14 body family). Integers above the small-int cache; 40-1100 facts under one key with suspended enumeration/retract and outside updates; clear() while a query is suspended (now specified); a reserved API name as a fact key.",
    "C09": " Templates with variables only below the top level, goals whose clause ends in a cut (yield True), goals defined by rules. call/N up to N=12; findall over goals needing hundreds of frames; the two empty-list objects before and after clear(); chained definitions with cuts through call/findall/once.",
    "C11": " Also: head names with trailing/leading line breaks and other separators; constructs that emit little or no code followed (and preceded) by clauses at the edge of Python's nesting limit. Numerals around CPython's 4300-digit limit; heads named like the engine key of a Python predicate registered before loading.",
    "C12": " Also: the same hostile texts compiled with every debug option on (comments + code, as yldpc -d writes them). The output written to a file and loaded through load_script_from_file must be the same program (PEP 263 declarations and UTF-7 escapes inside atoms under each debug option).",
    "C14": " TLC also checks the temporal property Termination under weak fairness and NeverOutOfFuel on the body family (the update loops terminate in the specification itself). The facts-only entry point match_dynamic as query route; name atoms kept across clear(); tables of 40-1100 facts (1100: thorough tier; API steps assertn/rest).",
    "C16": " Also terms containing two literals whose printed forms coincide ('f(a)' next to f(a), atom x1 next to `_`, 'X_' next to variable X). 9000 other atom names in the engine between two reads of a literal's atom.",
    "C17": " Also nested use: a projection function that itself calls evaluate_bounded on the same engine (inner and outer trace validated). 70 000 answers (results carried as a count, lemma ResultIsCounted); projection exceptions that evaluate_bounded swallows by design (RuntimeError, StopIteration) and those that are no Exception.",
    "C18": " The corpus contains compilations that raise at different stages (syntax, visitor, expression generation, generator limits) so that later programs are compiled after failed ones. Lists with more than a hundred variable occurrences; sources that differ only in terms that print alike.",
    "C08": " Scripts edited by hand (module-level constants): a load that raises must leave the engine unchanged; look-alike (NFKC) names; names such as __aux, nat_1 next to a Python predicate nat/1; callable objects that are falsy.",
    "C10": " Every string also compiled with all debug options on; foreign bracket pairs (/* */, (* *), { }, quotes) around stretches and inside quoted atoms; the file route keeps size and modification time.",
    "C13": " Values returned by an abandoned use stay fixed when the fact is used again; two uses after a renaming aborted inside evaluate_bounded; variables created before clear() asserted with variables created after it.",
    "C15": " Chains of 80 variable links; deep answers collected by hand and through evaluate_bounded, then the same Variable objects used again; list cells with non-list tails.",
    "C19": " 400 redundant parentheses; 1100 sources under a 1024 open-files limit; a 128 KiB source with two-byte characters astride the 64 KiB boundaries through standard input; print-alike terms under every flag set.",
    "C20": " Exceptions of ordinary types (TypeError, ValueError, KeyError, RuntimeError) raised inside the predicate body must reach the consumer as the same object. Python predicates registered as plain function, functools.wraps-decorated function, bound method, functools.partial, callable object (also a falsy one); TypeError with CPython's arity-mismatch wording.",
}


def main():
    props = [json.loads(l) for l in open(os.path.join(VERIF, "properties.jsonl"))]
    checks = []
    na = []
    for p in props:
        pid = p["id"]
        if pid in CHECKS:
            c = CHECKS[pid]
            checks.append({
                "property_id": pid,
                "quick_cmd": "bin/check %s --tier quick" % pid,
                "thorough_cmd": "bin/check %s --tier thorough" % pid,
                "evidence_file": "evidence/%s.json" % pid,
                "replay_cmd_template": "bin/check %s --replay {path}" % pid,
                "engine": c.get("engine", "tlc-machine-replay"),
                "level_claimed": {"category": c.get("category", "model_checking"), "text": c["text"] + EXTRA.get(pid, ""), "design_ref": "DESIGN.md section " + c["ref"]},
                "level_note": c.get("note", NOTE),
                "technique": c["technique"],
            })
        else:
            na.append({"property_id": pid, "reason": PENDING.get(pid, "check not built yet in this round (planned: DESIGN.md section 5); not claimed until its check is sound on the current tree")})
    m = {
        "version": 1,
        "setup_cmd": "bin/setup",
        "hooks": {
            "guard": "YLDPROLOG_VERIF",
            "enable": "YLDPROLOG_VERIF=1 in the environment when yldprolog.engine is imported (bin/check sets it); no build step",
            "baseline_off_cmd": "cd /repo && env -u YLDPROLOG_VERIF /venv/bin/python -m pytest -ra -q -p no:cacheprovider --timeout=900 --continue-on-collection-errors",
            "source_commits": ["93a7716"],
            "add_only": True,
        },
        "engines": [
            {"name": "tlc-machine-replay", "path": "spec/YP.tla + harness/", "serves_properties": sorted(CHECKS),
             "kind_free_text": "explicit TLA+ specification explored by TLC; behaviours replayed on the real code; recorded traces validated by TLC"},
        ],
        "checks": checks,
        "not_applicable": na,
        "notes": "See DESIGN.md. Exit codes: 0 held, 1 violation (VIOLATION line), 2 machinery failure.",
    }
    with open(os.path.join(VERIF, "MANIFEST.json"), "w") as f:
        json.dump(m, f, indent=1)
    print("MANIFEST.json: %d checks, %d not_applicable" % (len(checks), len(na)))


if __name__ == "__main__":
    main()
