"""writes MANIFEST.json from the table below (python3 -m harness.manifest)"""
import json
import os

VERIF = os.path.dirname(os.path.dirname(os.path.abspath(__file__)))

NOTE = ("Trusted base: TLC 1.8 and the TLA+ modules under spec/; the projection and term renderer of the "
        "Python drivers (harness/real.py, harness/terms.py); CPython. Bounds are those stated in the evidence file.")

CHECKS = {
    "C07": dict(
        text=("TLC enumerates every history over a menu of database operations (asserta/assertz/assert_fact/retract run to "
              "exhaustion or abandoned/retractall/clear/query; ground, partial, zero-arity and never-asserted patterns) to depth 3-4 "
              "on the TLA+ machine spec/YP.tla, checks the machine invariants in every micro state, and prints each history with the "
              "predicted answers and database contents after every step; every history is replayed on the real engine through three "
              "invocation routes (Python API, compiled clause, goal in a run-time bound variable) and the full contents of every key are "
              "read back after every step."),
        technique="TLC-enumerated histories of the TLA+ engine machine replayed step by step on the real engine",
        ref="5/C07"),
    "C05": dict(
        text=("TLC enumerates all clause bodies up to 5 (thorough: 6) nodes over {leaf, true, fail, !, ',', ';', '->', '\\+'} with cuts in transparent "
              "positions x leaf solution counts 0..2 x one- and two-clause predicates followed by a marker clause, checks on spec/Codegen.tla that the model "
              "of the emitted control flow refines the denotational semantics spec/Control.tla, runs every instance through the machine spec/YP.tla "
              "(invariant AnswersAreSLD: machine = denotational semantics, in every state the cut-barrier invariants) and replays every behaviour on the "
              "real compiler+engine, in two renderings, comparing every answer tuple (each leaf binds its own variable, so an answer spells the path) - "
              "also from a caller with alternatives before and after the call."),
        technique="TLC-enumerated body trees; two TLA+ formulations cross-checked; behaviours replayed on compiler+engine",
        ref="5/C05"),
    "C06": dict(
        text=("Same pipeline as C05 over every body containing ';', '->' or '\\+' (nesting to 5/6 nodes, constructs in every position of a conjunction, "
              "with cuts in branches); the fully parenthesised and the minimally parenthesised rendering of the same tree must both give the answers "
              "the specification predicts, which binds the grammar's precedence and associativity; negation is checked to bind nothing through the answer tuples."),
        technique="TLC-enumerated body trees; two TLA+ formulations cross-checked; behaviours replayed on compiler+engine",
        ref="5/C06"),
}

PENDING = {}


def main():
    props = [json.loads(l) for l in open(os.path.join(VERIF, "properties.jsonl"))]
    checks = []
    na = []
    for p in props:
        pid = p["id"]
        if pid in CHECKS:
            c = CHECKS[pid]
            checks.append({
                "property_id": pid,
                "quick_cmd": "bin/check %s --tier quick" % pid,
                "thorough_cmd": "bin/check %s --tier thorough" % pid,
                "evidence_file": "evidence/%s.json" % pid,
                "replay_cmd_template": "bin/check %s --replay {path}" % pid,
                "engine": c.get("engine", "tlc-machine-replay"),
                "level_claimed": {"category": c.get("category", "model_checking"), "text": c["text"], "design_ref": "DESIGN.md section " + c["ref"]},
                "level_note": c.get("note", NOTE),
                "technique": c["technique"],
            })
        else:
            na.append({"property_id": pid, "reason": PENDING.get(pid, "check not built yet in this round (planned: DESIGN.md section 5); not claimed until its check is sound on the current tree")})
    m = {
        "version": 1,
        "setup_cmd": "bin/setup",
        "hooks": {
            "guard": "YLDPROLOG_VERIF",
            "enable": "YLDPROLOG_VERIF=1 in the environment when yldprolog.engine is imported (bin/check sets it); no build step",
            "baseline_off_cmd": "cd /repo && env -u YLDPROLOG_VERIF /venv/bin/python -m pytest -ra -q -p no:cacheprovider --timeout=900 --continue-on-collection-errors",
            "source_commits": ["93a7716"],
            "add_only": True,
        },
        "engines": [
            {"name": "tlc-machine-replay", "path": "spec/YP.tla + harness/", "serves_properties": sorted(CHECKS),
             "kind_free_text": "explicit TLA+ specification explored by TLC; behaviours replayed on the real code; recorded traces validated by TLC"},
        ],
        "checks": checks,
        "not_applicable": na,
        "notes": "See DESIGN.md. Exit codes: 0 held, 1 violation (VIOLATION line), 2 machinery failure.",
    }
    with open(os.path.join(VERIF, "MANIFEST.json"), "w") as f:
        json.dump(m, f, indent=1)
    print("MANIFEST.json: %d checks, %d not_applicable" % (len(checks), len(na)))


if __name__ == "__main__":
    main()
