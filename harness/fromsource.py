"""Clause ASTs of repository .prolog files, obtained with the repository's own lexer, parser and
visitor (whose reading of the grammar and of literals is the subject of C10/C16), converted to the
term images of harness/terms.py so that the machine spec/YP.tla can run them."""
import io
import contextlib

from .terms import A, I, V, C, NIL, lst, TRUE, FAIL, CUT


def parse(text):
    """returns {key: [clause]} in source order of first occurrence"""
    from . import real
    import antlr4
    from yldprolog.prologLexer import prologLexer
    from yldprolog.prologParser import prologParser
    import yldprolog.yp_prolog_visitor as vis
    lexer = prologLexer(antlr4.InputStream(text))
    stream = antlr4.CommonTokenStream(lexer)
    parser = prologParser(stream)
    with contextlib.redirect_stderr(io.StringIO()):
        tree = parser.program()

    class Ctx:
        debug_filename = ''
        debug_parser = False
        debug_generator = False
        current_source_file = ''
        outf = None
    program = vis.YPPrologVisitor(Ctx).visit(tree)

    def term(t, env):
        if isinstance(t, vis.Atom):
            return A(t.value)
        if isinstance(t, vis.NumeralTerm):
            return I(int(t.num))
        if isinstance(t, vis.VariableTerm):
            return V(env.setdefault(t.varname, len(env)))
        if isinstance(t, vis.ListTerm):
            return lst([term(x, env) for x in t.items])
        if isinstance(t, vis.ListPairTerm):
            return C(".", term(t.head, env), term(t.tail, env))
        if isinstance(t, vis.Functor):
            if not t.args:
                return A(t.name.value)
            return C(t.name.value, *[term(a, env) for a in t.args])
        raise ValueError("term %r" % (t,))

    def body(b, env):
        if isinstance(b, vis.TruePredicate):
            return TRUE
        if isinstance(b, vis.FailPredicate):
            return FAIL
        if isinstance(b, vis.CutPredicate):
            return CUT
        if isinstance(b, vis.Predicate):
            return {"b": "call", "g": term(b.functor, env)}
        if isinstance(b, vis.ConjunctionPredicate):
            return {"b": "and", "l": body(b.lhs, env), "r": body(b.rhs, env)}
        if isinstance(b, vis.DisjunctionPredicate):
            return {"b": "or", "l": body(b.lhs, env), "r": body(b.rhs, env)}
        if isinstance(b, vis.IfThenPredicate):
            return {"b": "then", "c": body(b.condition, env), "t": body(b.action, env)}
        if isinstance(b, vis.NegationPredicate):
            return {"b": "not", "g": body(b.pred, env)}
        raise ValueError("body %r" % (b,))

    out = {}
    for (name, arity), clauses in program.items():
        cls = []
        for c in clauses:
            env = {}
            h = term(c.head.functor, env)
            bd = body(c.body, env)
            cls.append({"h": h, "body": bd, "nv": len(env)})
        out["%s/%d" % (name, arity)] = cls
    return out
