"""insert work/section0.md (with generated tables) into DESIGN.md between the markers"""
import os
import re
import sys
from . import design_tables

VERIF = os.path.dirname(os.path.dirname(os.path.abspath(__file__)))


def main():
    selflog = sys.argv[1]
    thorough = sys.argv[2] if len(sys.argv) > 2 else None
    sec = open(os.path.join(VERIF, "doc", "section0.md")).read()
    st, nt, n, ok = design_tables.seeded_table(selflog)
    sec = sec.replace("@@SEEDEDTABLE@@", st + "\n\n" + nt + "\n\n%d of %d seeded changes are detected by at least one owning check (quick tier unless noted); every behaviour-preserving patch is silent." % (ok, n))
    sec = sec.replace("@@SIZES@@", design_tables.sizes_table(thorough))
    p = os.path.join(VERIF, "DESIGN.md")
    s = open(p).read()
    if "@@SECTION0@@" in s:
        s = s.replace("@@SECTION0@@", "<!-- section0:begin -->\n" + sec + "\n<!-- section0:end -->")
    else:
        s = re.sub(r"<!-- section0:begin -->.*?<!-- section0:end -->", lambda m: "<!-- section0:begin -->\n" + sec + "\n<!-- section0:end -->", s, flags=re.S)
    open(p, "w").write(s)
    print("DESIGN.md updated: %d/%d seeded" % (ok, n))


if __name__ == "__main__":
    main()
