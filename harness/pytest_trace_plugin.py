"""pytest plugin: records what the repository's own tests do with the public API, one trace per test.

Loaded with `-p harness.pytest_trace_plugin` (PYTHONPATH = /verif and the repository's src).  Nothing in
the repository is changed: the public entry points are wrapped from outside, the wrappers log one event
per call made BY THE TEST (a depth counter skips the calls the engine makes itself while a query is being
advanced), after the call has returned.  The traces are validated against spec/YP.tla by
harness/suite_trace.py (code -> specification direction).

event kinds: engine, compiled (output hash -> Prolog source), load, assert, clear, register, query,
answer, stop, close, raised, unsupported."""
import hashlib
import json
import os
import threading

import pytest

OUT = os.environ.get("VERIF_SUITE_TRACE_DIR")
_state = threading.local()
TRACE = []
ENGINES = {}
RUNS = [0]
SOURCES = {}


def _depth():
    return getattr(_state, "depth", 0)


class _Inside:
    def __enter__(self):
        _state.depth = _depth() + 1

    def __exit__(self, *a):
        _state.depth = _depth() - 1


def _walk(x, Variable):
    hops = 0
    while isinstance(x, Variable) and x._is_bound and hops < 100000:
        x = x._value
        hops += 1
    return x


def _image(x, names, eng, follow=True):
    """term image in the format of harness/terms.py; raises ValueError for values the specification has no image of"""
    Variable, Atom, Functor = eng.Variable, eng.Atom, eng.Functor
    if follow:
        x = _walk(x, Variable)
    if isinstance(x, Variable):
        if x._is_bound:
            raise ValueError("bound variable")
        return {"t": "v", "id": names.setdefault(id(x), len(names))}
    if isinstance(x, Atom):
        return {"t": "a", "n": x._name}
    if isinstance(x, Functor):
        return {"t": "c", "n": x._name, "a": [_image(a, names, eng, follow) for a in x._args]}
    if isinstance(x, bool):
        raise ValueError("python constant %r" % (x,))
    if isinstance(x, int):
        return {"t": "i", "n": str(x)}
    raise ValueError("python constant %r" % (type(x).__name__,))


def _vars_in(x, eng, acc):
    Variable, Functor = eng.Variable, eng.Functor
    x = _walk(x, Variable)
    if isinstance(x, Variable):
        if not any(v is x for v in acc):
            acc.append(x)
    elif isinstance(x, Functor):
        for a in x._args:
            _vars_in(a, eng, acc)


def _log(ev):
    TRACE.append(ev)


def _install():
    import yldprolog.engine as eng
    import yldprolog.compiler as comp
    YP = eng.YP
    if getattr(YP, "_verif_wrapped", False):
        return
    YP._verif_wrapped = True

    def eid(yp):
        if id(yp) not in ENGINES:
            ENGINES[id(yp)] = (len(ENGINES) + 1, yp)      # keep the object alive: ids are not reused within a test
            _log({"ev": "engine", "e": len(ENGINES)})
        return ENGINES[id(yp)][0]

    for fname in ("compile_prolog_from_string", "compile_prolog_from_file"):
        orig = getattr(comp, fname)

        def wrapped(src, *a, _orig=orig, _fname=fname, **k):
            out = _orig(src, *a, **k)
            try:
                text = src if _fname.endswith("string") else open(src, encoding="utf8").read()
                SOURCES[hashlib.sha1(out.encode("utf-8")).hexdigest()] = text
            except Exception:
                pass
            return out
        setattr(comp, fname, wrapped)
    # the tests import the names directly: patch the modules that already hold them, too
    import sys
    for m in list(sys.modules.values()):
        for fname in ("compile_prolog_from_string", "compile_prolog_from_file"):
            if getattr(m, "__name__", "").startswith("tests") or getattr(m, "__name__", "").startswith("test_"):
                if hasattr(m, fname):
                    setattr(m, fname, getattr(comp, fname))

    o_init = YP.__init__

    def __init__(self, *a, **k):
        with _Inside():       # the constructor registers the builtins itself
            o_init(self, *a, **k)
    YP.__init__ = __init__

    o_load = YP.load_script_from_string

    def load_script_from_string(self, s, fn='', overwrite=True):
        if _depth():
            return o_load(self, s, fn, overwrite)
        with _Inside():
            r = o_load(self, s, fn, overwrite)
        sha = hashlib.sha1(s.encode("utf-8")).hexdigest()
        if sha in SOURCES:
            _log({"ev": "load", "e": eid(self), "sha": sha, "ow": bool(overwrite)})
        else:
            _log({"ev": "unsupported", "why": "a script that was not produced by the compiler in this test"})
        return r
    YP.load_script_from_string = load_script_from_string

    o_assert = YP.assert_fact

    def assert_fact(self, name, values, append=True):
        if _depth():
            return o_assert(self, name, values, append)
        with _Inside():
            r = o_assert(self, name, values, append)
        try:
            names = {}
            args = [_image(v, names, eng) for v in values]
            t = {"t": "c", "n": name.name(), "a": args} if args else {"t": "a", "n": name.name()}
            _log({"ev": "assert", "e": eid(self), "term": t, "atEnd": bool(append)})
        except Exception as ex:
            _log({"ev": "unsupported", "why": "assert_fact: %s" % ex})
        return r
    YP.assert_fact = assert_fact

    o_clear = YP.clear

    def clear(self):
        if _depth():
            return o_clear(self)
        with _Inside():
            r = o_clear(self)
        _log({"ev": "clear", "e": eid(self)})
        return r
    YP.clear = clear

    o_reg = YP.register_function

    def register_function(self, name, func, arity=None):
        r = o_reg(self, name, func, arity)
        if not _depth():
            _log({"ev": "unsupported", "why": "register_function(%s): Python predicates of the tests are not modelled" % name})
        return r
    YP.register_function = register_function

    def tracing(self, make, name, args, how):
        """a generator around the real one: logs creation lazily (at the first advance, when the real generator
        starts), every answer, the end, and abandonment"""
        rid = None
        qv = []
        try:
            e = eid(self)
            names = {}
            imgs = [_image(a, names, eng, follow=False) for a in args]
            for a in args:
                _vars_in(a, eng, qv)
            # variable ids of the goal: first occurrence order, the same order as qv
            RUNS[0] += 1
            rid = RUNS[0]
            goal = {"t": "c", "n": name, "a": imgs} if imgs else {"t": "a", "n": name}
            _log({"ev": "query", "e": e, "r": rid, "goal": goal, "qnv": len(names), "how": how})
        except Exception as ex:
            _log({"ev": "unsupported", "why": "goal of a query: %s" % ex})
        with _Inside():
            g = make()
        done = False
        try:
            while True:
                with _Inside():
                    try:
                        x = next(g)
                    except StopIteration:
                        done = True
                        if rid:
                            _log({"ev": "stop", "r": rid})
                        return
                    except BaseException as ex:
                        done = True
                        if rid:
                            _log({"ev": "raised", "r": rid, "exc": type(ex).__name__})
                        raise
                if rid:
                    try:
                        nm = {}
                        _log({"ev": "answer", "r": rid, "ans": [_image(v, nm, eng) for v in qv], "yielded": bool(x)})
                    except Exception as ex:
                        _log({"ev": "unsupported", "why": "answer: %s" % ex})
                yield x
        finally:
            if not done:
                with _Inside():
                    g.close()
                if rid:
                    _log({"ev": "close", "r": rid})

    o_query = YP.query

    def query(self, name, args):
        if _depth():
            return o_query(self, name, args)
        return tracing(self, lambda: o_query(self, name, args), name, list(args), "query")
    YP.query = query

    o_md = YP.match_dynamic

    def match_dynamic(self, name, args):
        if _depth():
            return o_md(self, name, args)
        return tracing(self, lambda: iter(o_md(self, name, args)), name.name(), list(args), "match_dynamic")
    YP.match_dynamic = match_dynamic


def pytest_configure(config):
    _install()


@pytest.hookimpl(tryfirst=True)
def pytest_runtest_setup(item):
    _install()
    del TRACE[:]
    ENGINES.clear()
    SOURCES.clear()
    _state.depth = 0


@pytest.hookimpl(trylast=True)
def pytest_runtest_teardown(item, nextitem):
    if not OUT:
        return
    os.makedirs(OUT, exist_ok=True)
    used = sorted({ev["sha"] for ev in TRACE if ev.get("ev") == "load"})
    rec = {"test": item.nodeid, "events": list(TRACE), "sources": {s: SOURCES[s] for s in used}}
    fn = os.path.join(OUT, hashlib.sha1(item.nodeid.encode()).hexdigest()[:12] + ".json")
    with open(fn, "w") as f:
        json.dump(rec, f)
    del TRACE[:]
    ENGINES.clear()
