"""import a sub-agent's mutant from /tmp/wt/<ID>/mutantK.diff + demoK.py into seeded/<ID>-mK after
confirming it in a fresh scratch worktree: tests pass with it, demo fails with it, demo passes without."""
import json
import os
import shutil
import subprocess
import sys
import tempfile

VERIF = os.path.dirname(os.path.dirname(os.path.abspath(__file__)))


def sh(cmd, cwd=None, env=None, timeout=900):
    p = subprocess.run(cmd, cwd=cwd, env=env, capture_output=True, text=True, timeout=timeout)
    return p.returncode, (p.stdout + p.stderr)[-600:]


def main():
    pid, k = sys.argv[1], sys.argv[2]
    needs = sys.argv[3] if len(sys.argv) > 3 else ""
    summary = sys.argv[4] if len(sys.argv) > 4 else ""
    src = os.path.join(os.environ.get("SEED_SRC", "/tmp/wt"), pid)
    tag = os.environ.get("SEED_TAG", "m")
    diff = os.path.join(src, "mutant%s.diff" % k)
    demo = os.path.join(src, "demo%s.py" % k)
    wt = tempfile.mkdtemp(prefix="yld-confirm-", dir="/var/tmp")
    os.rmdir(wt)
    ran = []
    try:
        sh(["git", "-C", "/repo", "worktree", "add", "-q", "--detach", wt, "HEAD"])
        env = dict(os.environ)
        env["PYTHONPATH"] = os.path.join(wt, "src")
        env.pop("YLDPROLOG_VERIF", None)
        shutil.copy(demo, os.path.join(wt, "demo.py"))
        rc0, out0 = sh(["/venv/bin/python", "demo.py"], cwd=wt, env=env)
        ran.append("unchanged tree: demo exit %d" % rc0)
        rc, out = sh(["git", "-C", wt, "apply", diff])
        if rc != 0:
            print("PATCH DOES NOT APPLY", out); return 1
        rct, outt = sh(["/venv/bin/python", "-m", "pytest", "-q", "-p", "no:cacheprovider", "tests"], cwd=wt, env=env)
        ran.append("with change: pytest exit %d (%s)" % (rct, outt.strip().splitlines()[-1] if outt.strip() else ""))
        rc1, out1 = sh(["/venv/bin/python", "demo.py"], cwd=wt, env=env)
        ran.append("with change: demo exit %d" % rc1)
        ok = rc0 == 0 and rct == 0 and rc1 != 0
        print("\n".join(ran))
        if not ok:
            print("NOT CONFIRMED"); print(out0[-200:]); print(out1[-200:]); return 1
    finally:
        subprocess.run(["git", "-C", "/repo", "worktree", "remove", "--force", wt], capture_output=True)
        shutil.rmtree(wt, ignore_errors=True)
    dst = os.path.join(VERIF, "seeded", "%s-%s%s" % (pid, tag, k))
    os.makedirs(dst, exist_ok=True)
    shutil.copy(diff, os.path.join(dst, "patch.diff"))
    shutil.copy(demo, os.path.join(dst, "demo.py"))
    meta = {"property": pid, "checks": [pid], "summary": summary, "needs_to_manifest": needs, "origin": "independent sub-agent given only the property text",
            "confirmed": ran}
    json.dump(meta, open(os.path.join(dst, "meta.json"), "w"), indent=1)
    print("imported", dst)
    return 0


if __name__ == "__main__":
    sys.exit(main())
