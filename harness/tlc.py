"""Running TLC and decoding what it prints."""
import json
import os
import re
import shutil
import subprocess
import time

VERIF = os.path.dirname(os.path.dirname(os.path.abspath(__file__)))
SPEC = os.path.join(VERIF, "spec")
WORK = os.path.join(VERIF, "work")
JARS = "/opt/veriftools/tla/tla2tools.jar:/opt/veriftools/tla/CommunityModules-deps.jar"


# TLC writes states to disk when a run is large, and its string serialisation keeps one byte per character:
# a non-ASCII character in a TLA+ string value comes back mangled (U+00E9 -> U+FFE9) in runs that spill, and only
# in those.  Strings therefore travel to TLC in an injective ASCII encoding and are decoded when records are read;
# the specification only ever compares them.
_MARK = "~u~"


def _enc_str(s):
    if s.isascii() and not s.startswith(_MARK):
        return s
    return _MARK + s.encode("unicode_escape").decode("ascii")


def _dec_str(s):
    if s.startswith(_MARK):
        return s[len(_MARK):].encode("ascii").decode("unicode_escape")
    return s


def enc_json(x):
    if isinstance(x, str):
        return _enc_str(x)
    if isinstance(x, list):
        return [enc_json(a) for a in x]
    if isinstance(x, dict):
        return {_enc_str(k): enc_json(v) for k, v in x.items()}
    return x


def dec_json(x):
    if isinstance(x, str):
        return _dec_str(x)
    if isinstance(x, list):
        return [dec_json(a) for a in x]
    if isinstance(x, dict):
        return {_dec_str(k): dec_json(v) for k, v in x.items()}
    return x


class TLCError(Exception):
    """machinery failure: TLC crashed, a spec-level invariant failed, output unparsable"""


class TLCResult:
    def __init__(self):
        self.records = []       # decoded "@@" lines
        self.lines = []         # other PrintT lines (decoded TLA+ values as text)
        self.generated = 0
        self.distinct = 0
        self.depth = 0
        self.wall = 0.0
        self.coverage = {}
        self.output = ""


def run(module, cfg, env=None, workers=16, tag=None, xss="256m", heap="8g", timeout=3600,
        simulate=None, extra=None, coverage=False, keep_output=False, on_record=None):
    """run `tlc module.tla -config cfg` in spec/, return TLCResult; raises TLCError when the
    run does not end with 'Model checking completed. No error has been found.'"""
    tag = tag or ("%s-%d" % (module, os.getpid()))
    meta = os.path.join(WORK, "tlc-" + tag)
    shutil.rmtree(meta, ignore_errors=True)
    os.makedirs(meta, exist_ok=True)
    cmd = ["java", "-XX:+UseParallelGC", "-Dfile.encoding=UTF-8", "-Dstdout.encoding=UTF-8", "-Dsun.stdout.encoding=UTF-8",
           "-Xss" + xss, "-Xmx" + heap, "-cp", JARS, "tlc2.TLC",
           "-workers", str(workers), "-metadir", meta, "-noGenerateSpecTE", "-config", cfg]
    if coverage:
        cmd += ["-coverage", "1"]
    if simulate:
        cmd += ["-simulate", simulate]
    if extra:
        cmd += list(extra)
    cmd.append(module + ".tla")
    e = dict(os.environ)
    if env:
        e.update({k: str(v) for k, v in env.items()})
    t0 = time.time()
    res = TLCResult()
    def _die_with_parent():
        # a TLC whose driver was killed must not keep running (PR_SET_PDEATHSIG = 1)
        try:
            import ctypes
            import signal
            ctypes.CDLL("libc.so.6", use_errno=True).prctl(1, signal.SIGKILL)
        except Exception:
            pass
    p = subprocess.Popen(cmd, cwd=SPEC, env=e, stdout=subprocess.PIPE, stderr=subprocess.STDOUT,
                         text=True, encoding="utf-8", errors="replace", preexec_fn=_die_with_parent)
    tail = []
    ok = False
    # watchdog: TLC that neither ends nor prints (e.g. a heap in GC thrash) must not hang the check
    import threading
    killed = []

    def _kill():
        killed.append(True)
        try:
            p.kill()
        except Exception:
            pass
    timer = threading.Timer(timeout, _kill)
    timer.daemon = True
    timer.start()
    try:
        for line in p.stdout:
            if line.startswith('"@@'):
                try:
                    rec = dec_json(json.loads(json.loads(line)[2:]))
                except Exception as ex:
                    raise TLCError("undecodable record line: %r (%s)" % (line[:200], ex))
                if on_record:
                    on_record(rec)
                else:
                    res.records.append(rec)
                continue
            tail.append(line)
            if len(tail) > 400:
                del tail[:100]
            if keep_output:
                res.lines.append(line.rstrip("\n"))
            m = re.match(r"(\d+) states generated, (\d+) distinct states found", line)
            if m:
                res.generated, res.distinct = int(m.group(1)), int(m.group(2))
            m = re.match(r"The depth of the complete state graph search is (\d+)", line)
            if m:
                res.depth = int(m.group(1))
            if "No error has been found" in line:
                ok = True
        p.wait()
        if killed:
            raise TLCError("TLC killed by the watchdog after %ds" % timeout)
    finally:
        timer.cancel()
        if p.poll() is None:
            p.kill()
        shutil.rmtree(meta, ignore_errors=True)
    res.wall = time.time() - t0
    res.output = "".join(tail)
    if simulate:
        ok = ok or p.returncode == 0
    if not ok:
        raise TLCError("TLC did not complete cleanly (exit %s):\n%s" % (p.returncode, "".join(tail[-60:])))
    return res
