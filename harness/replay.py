"""Spec -> code replay: execute the behaviours TLC emitted on the real code and compare
the projection of the real state with the predicted abstract state after every step."""
import gc
import json
import multiprocessing
import os
import sys
import threading
import traceback

MON = None


class BudgetExceeded(BaseException):
    """the real code used more calls than the budget derived from the specification's
    step count: the search does not terminate where the specification's does"""


class _Budget:
    def __init__(self):
        self.left = 1 << 60
        self.on = False

    def install(self):
        global MON
        if self.on:
            return
        mon = sys.monitoring
        self.tool = mon.PROFILER_ID
        try:
            mon.use_tool_id(self.tool, "verif-budget")
        except ValueError:
            pass
        mon.register_callback(self.tool, mon.events.PY_START, self._cb)
        mon.register_callback(self.tool, mon.events.PY_RESUME, self._cb)
        mon.set_events(self.tool, mon.events.PY_START | mon.events.PY_RESUME)
        self.on = True

    def _cb(self, code, offset):
        # only the code under test counts: the package's own functions and the scripts it loads (compiled with
        # an empty or <...> file name); the drivers' own helper calls would otherwise eat the budget
        fn = code.co_filename
        if fn and not (fn.startswith("<") or "yldprolog" in fn):
            return sys.monitoring.DISABLE
        self.left -= 1
        if self.left < 0:
            self.left = 1 << 60
            raise BudgetExceeded()

    def arm(self, n):
        self.left = n

    def disarm(self):
        self.left = 1 << 60


BUDGET = _Budget()


def norm(x):
    return json.dumps(x, sort_keys=True)


def _strip(obs):
    """the comparable part of an observation"""
    o = {k: v for k, v in obs.items() if k in ("k", "ans", "answers", "end")}
    return o


def _pyfilter(obs, exp):
    """positions the specification leaves open (unspec) are not compared"""
    def f(o, e):
        if isinstance(e, dict) and e.get("unspec"):
            return e
        if isinstance(e, dict) and isinstance(o, dict):
            if "l" in e and "l" in o and len(e["l"]) == len(o["l"]):
                return {"l": [f(a, b) for a, b in zip(o["l"], e["l"])]}
            if "a" in e and "a" in o and len(e["a"]) == len(o["a"]):
                return {"f": o.get("f"), "a": [f(a, b) for a, b in zip(o["a"], e["a"])]}
        return o
    if not isinstance(obs, list) or not isinstance(exp, list) or len(obs) != len(exp):
        return obs
    return [[f(a, b) for a, b in zip(x, y)] if isinstance(x, list) and isinstance(y, list) and len(x) == len(y) else x for x, y in zip(obs, exp)]


def _ground(t):
    return t["t"] != "v" and (t["t"] != "c" or all(_ground(a) for a in t["a"]))


def _gv_bad(gvs, answers):
    """where an answer is ground, the value get_value returned must be exactly that term, with no
    variable (bound or not) inside; non-ground positions are covered by the walker comparison"""
    for g, a in zip(gvs or [], answers or []):
        for x, y in zip(g or [], a):
            if _ground(y) and norm(x) != norm(y):
                return True
    return False


def _term_depth(t):
    d, stack = 0, [(t, 1)]
    while stack:
        x, k = stack.pop()
        d = max(d, k)
        if x["t"] == "c":
            for a in x["a"]:
                stack.append((a, k + 1))
    return d


def _body_size(b):
    """(constructs and goals in the body, deepest term)"""
    k = b["b"]
    if k == "call":
        return 1, _term_depth(b["g"])
    if k in ("and", "or"):
        (n1, d1), (n2, d2) = _body_size(b["l"]), _body_size(b["r"])
        return n1 + n2 + (1 if k == "or" else 0), max(d1, d2)
    if k == "then":
        (n1, d1), (n2, d2) = _body_size(b["c"]), _body_size(b["t"])
        return n1 + n2 + 1, max(d1, d2)
    if k == "not":
        n, d = _body_size(b["g"])
        return n + 1, d
    return 1, 0


def _has_large_clause(script):
    """the compiler may refuse a clause that is too large for Python (CompilerLimitError: 20 nested blocks,
    200 nested parentheses); far below those sizes a refusal is a defect, not a limit"""
    for cls in script.values():
        for c in cls:
            n, d = _body_size(c["body"])
            if n > 10 or max(d, _term_depth(c["h"])) > 60:
                return True
    return False


def _baton(batons, t):
    """one OS thread per scenario thread; the caller hands control over op by op"""
    import concurrent.futures
    if t not in batons:
        batons[t] = concurrent.futures.ThreadPoolExecutor(max_workers=1)
    return batons[t]


def replay_one(scn, rec, opts):
    """returns a result dict: {"id", "status": ok|violation|truncated, ...}"""
    from . import real
    BUDGET.install()
    res = {"id": rec["id"], "status": "ok", "steps": 0, "nontrivial": False}
    stale = real.bound_registry()
    if stale:
        gc.collect()
    try:
        runner = real.Runner(scn, mode=opts.get("mode", "full"), opts=opts)
    except Exception as e:
        res.update(status="violation", step=0, kind="setup", detail="%s: %s" % (type(e).__name__, e))
        return res
    fuel = rec.get("fuel", 0)
    budget = 1000 * fuel + 100000 + opts.get("budget_extra", 0)
    batons = {}
    try:
        for i, h in enumerate(rec["hist"]):
            op, exp, st = h["op"], h["obs"], h["st"]
            if exp["k"] in ("budget", "cyclic", "unspec") or exp.get("end") in ("budget", "cyclic", "unspec"):
                res["status"] = "truncated"
                res["why"] = exp.get("end") or exp["k"]
                break
            viol = None
            obs = None
            try:
                if op["op"] not in ("load", "loadfail"):   # compiling with ANTLR is expensive and not a search
                    BUDGET.arm(budget)
                try:
                    if opts.get("baton") and "t" in op:
                        obs = _baton(batons, op["t"]).submit(runner.apply, op).result()
                    else:
                        obs = runner.apply(op)
                finally:
                    BUDGET.disarm()
            except BudgetExceeded:
                viol = ("nontermination", "more than %d calls where the specification needs %d steps" % (budget, fuel))
            except RecursionError as e:
                viol = ("exception", "RecursionError")
            except Exception as e:
                if op["op"] in ("load", "loadfail") and type(e).__name__ == "CompilerLimitError" and _has_large_clause(scn["scripts"].get(op.get("script"), {})):
                    # the compiler itself reports that a clause is too large for Python: allowed
                    res["status"] = "truncated"
                    res["why"] = "clause-too-large"
                    break
                if op["op"] == "load" and scn.get("may_refuse_names") and type(e).__name__.startswith("Compiler"):
                    # the compiler may refuse a predicate name it cannot express; then nothing is loaded
                    res["status"] = "truncated"
                    res["why"] = "compiler-refuses-name"
                    break
                phase = "compile" if op["op"] in ("load", "loadfail") else "run"
                tb = traceback.extract_tb(e.__traceback__)
                where = ""
                for fr in reversed(tb):
                    if "yldprolog" in fr.filename:
                        where = "%s:%s" % (os.path.basename(fr.filename), fr.name)
                        break
                viol = ("exception", "%s:%s:%s: %s" % (phase, type(e).__name__, where, str(e)[:120]))
            if viol is None and op.get("via", {}).get("prefix") and exp.get("k") == "solve" and obs.get("k") == "solve":
                # evaluate_bounded on a search that may be deeper than the limit: any prefix of the answers
                n = len(obs.get("answers", []))
                if n <= len(exp.get("answers", [])) and obs.get("end") in ("stop", exp.get("end")):
                    exp = dict(exp)
                    exp["answers"] = exp["answers"][:n]
                    exp["end"] = obs.get("end")
                    if "pys" in exp:
                        exp["pys"] = exp["pys"][:n]
            if viol is None and obs.get("k") == "load-raised":
                if obs.get("changed"):
                    viol = ("load-raised", "a load that raised (%s) changed the engine: %s" % (obs.get("exc"), ", ".join(obs["changed"][:6])))
                else:
                    res["status"] = "truncated"
                    res["why"] = "load-refused-unchanged"
                    break
            if viol is None:
                if obs.get("k") == "solve" and obs.get("end") == "exception":
                    viol = ("exception", "run:" + str(obs.get("exc")))
                elif obs.get("k") == "exception":
                    viol = ("exception", "run:" + str(obs.get("exc")))
                elif obs.get("limit_after"):
                    viol = ("limit", "the interpreter's recursion limit was %d before evaluate_bounded and %d after" % tuple(obs["limit_after"]))
                elif obs.get("bad_result"):
                    viol = ("answers", "evaluate_bounded did not return the projections of the answers in order: %s" % obs["bad_result"])
                elif norm(_strip(obs)) != norm(_strip(exp)):
                    viol = ("answers", "observation differs")
                elif opts.get("c15", True) and obs.get("k") == "answer" and _gv_bad([obs.get("gv")], [exp.get("ans")]):
                    viol = ("get_value", "get_value at an answer is not the fully dereferenced term")
                    obs, exp = obs.get("gv"), exp.get("ans")
                elif opts.get("c15", True) and obs.get("makelist_stale"):
                    viol = ("makelist", "a list built with makelist from the query variables at an earlier answer does not follow their bindings")
                    obs, exp = obs.get("makelist_stale"), None
                elif opts.get("c15", True) and obs.get("k") == "answer" and exp.get("pyargs") and _gv_bad([obs.get("gargs")], [exp.get("gargs")]):
                    viol = ("get_value", "get_value of a goal argument term at an answer is not the fully dereferenced term")
                    obs, exp = obs.get("gargs"), exp.get("gargs")
                elif opts.get("c15", True) and obs.get("k") == "answer" and exp.get("pyargs") and norm(_pyfilter([obs.get("pyargs")], [exp.get("pyargs")])) != norm([exp.get("pyargs")]):
                    viol = ("to_python", "to_python of a goal argument term at an answer differs from the specified image")
                    obs, exp = obs.get("pyargs"), exp.get("pyargs")
                elif opts.get("c15", True) and obs.get("k") == "solve" and _gv_bad(obs.get("gvs"), exp.get("answers")):
                    viol = ("get_value", "get_value at an answer is not the fully dereferenced term")
                    obs, exp = obs.get("gvs"), exp.get("answers")
                elif opts.get("c15", True) and obs.get("k") == "solve" and exp.get("pys") and norm(_pyfilter(obs.get("pys"), exp.get("pys"))) != norm(exp.get("pys")):
                    viol = ("to_python", "to_python at an answer differs from the specified image")
                    obs, exp = obs.get("pys"), exp.get("pys")
                elif opts.get("c15", True) and obs.get("stale"):
                    viol = ("stale", "a value saved at an answer denotes a different term after the query ended")
                    obs, exp = obs.get("stale"), []
                else:
                    try:
                        snap = runner.snapshot()
                    except Exception as e:     # reading the database back through match_dynamic failed in the code under test
                        snap = None
                        viol = ("exception", "read-back:%s: %s" % (type(e).__name__, str(e)[:120]))
                    if snap is None:
                        pass
                    elif norm(snap["dbs"]) != norm(st["dbs"]):
                        viol = ("db", "database contents differ")
                        obs = {"obs": obs, "dbs": snap["dbs"]}
                        exp = {"obs": exp, "dbs": st["dbs"]}
                    elif not st["live"]:
                        b = real.bound_registry()
                        if b:
                            viol = ("bound", "%d variables still bound although no query is suspended" % len(b))
                    if viol is None and sys.getrecursionlimit() != runner.base_limit:
                        viol = ("interpreter-state", "the interpreter's recursion limit is %d after this step, it was %d" % (sys.getrecursionlimit(), runner.base_limit))
                        sys.setrecursionlimit(runner.base_limit)
                    if viol is None:
                        lv = runner.check_live()
                        if lv:
                            viol = ("live", "the answer a suspended query is standing at changed while something else ran")
                            obs, exp = lv, []
                    if viol is None and opts.get("c15", True):
                        fz = runner.check_frozen()
                        if fz:
                            viol = ("frozen", "a value returned by a query that has ended changed when something else ran later")
                            obs, exp = fz, []
                    if viol is None and "nlog" in exp and opts.get("check_nlog"):
                        if norm(runner.nstate.log) != norm(exp["nlog"]):
                            viol = ("nlog", "arguments received by native predicates differ")
                            obs, exp = runner.nstate.log, exp["nlog"]
            if viol is not None:
                res.update(status="violation", step=i, kind=viol[0], detail=viol[1], op=op,
                           expected=exp, observed=obs, texts=runner.texts)
                break
            res["steps"] = i + 1
            if exp.get("ans") or exp.get("answers") or op["op"] in ("assert",):
                res["nontrivial"] = True
    finally:
        for ex in batons.values():
            ex.shutdown(wait=True)
        try:
            runner.finish()
        except BaseException:
            pass
        del runner
    return res


def _worker(chunk):
    out = []

    def body():
        sys.setrecursionlimit(30000)
        for scn, rec, opts in chunk:
            try:
                out.append(replay_one(scn, rec, opts))
            except BaseException as e:    # machinery failure
                out.append({"id": rec.get("id"), "status": "error",
                            "detail": "%s: %s\n%s" % (type(e).__name__, e, traceback.format_exc()[-1500:])})
    threading.stack_size(512 * 1024 * 1024)
    t = threading.Thread(target=body)
    t.start()
    t.join()
    return out


def pool_map(fn, chunks, procs=16, timeout=3000, maxtasks=40):
    """map over worker processes with an overall watchdog: a hang in the code under test that
    escapes the call budget becomes a machinery error (exit 2), never an endless check"""
    ctx = multiprocessing.get_context("fork")
    p = ctx.Pool(min(procs, max(1, len(chunks))), maxtasksperchild=maxtasks)
    try:
        res = p.map_async(fn, chunks).get(timeout=timeout)
        p.close()
        p.join()
        return res
    except multiprocessing.TimeoutError:
        p.terminate()
        raise RuntimeError("worker pool watchdog: no result within %ds" % timeout)
    except BaseException:
        p.terminate()
        raise


def replay_all(items, procs=16, chunk=50):
    """items: list of (scn, rec, opts).  returns list of results (same order)."""
    if not items:
        return []
    chunks = [items[i:i + chunk] for i in range(0, len(items), chunk)]
    if procs <= 1 or len(items) < 8:
        outs = [_worker(c) for c in chunks]
    else:
        outs = pool_map(_worker, chunks, procs)
    return [r for o in outs for r in o]
