"""Recording what the compiler returned for a source program (C11/C12): projection of the
Python AST of the output, the names loading it adds to a fresh engine, whether each defined
predicate can be queried, and the audit events seen while loading and querying.  The records
are validated by TLC against spec/Emitted.tla."""
import ast
import inspect
import io
import json
import contextlib
import multiprocessing
import os
import re
import sys
import tempfile

from . import tlc
from . import terms as T


def cps(s):
    return [ord(c) for c in s]


CALLNAMES = ["variable", "atom", "functor", "listpair", "makelist", "unify", "query"]
READNAMES = CALLNAMES + ["ATOM_NIL"]


# ---------------------------------------------------------------- source side
class Src:
    """a source program given as text plus the facts about it the relation needs"""

    def __init__(self, text, heads, strings, ints, variables, label="", debug=False):
        self.debug = debug            # compile with every debug option on; the output is comments + code
        self.text = text
        self.heads = heads            # [(name, arity)]
        self.strings = strings        # names occurring in the source (unquoted)
        self.ints = ints              # canonical decimal values of its numerals
        self.variables = variables
        self.label = label


def render_term(t, names, spell):
    """names: variable id -> source name; spell: dict for numerals with a special spelling"""
    k = t["t"]
    if k == "a":
        return T.render_atom(t["n"])
    if k == "i":
        return t.get("sp", t["n"])
    if k == "v":
        return names(t["id"])
    if t["n"] == "." and len(t["a"]) == 2:
        items = []
        x = t
        while x["t"] == "c" and x["n"] == "." and len(x["a"]) == 2:
            items.append(render_term(x["a"][0], names, spell)); x = x["a"][1]
        if x == T.NIL:
            return "[" + ",".join(items) + "]"
        if x["t"] == "v":
            return "[" + ",".join(items) + "|" + render_term(x, names, spell) + "]"
        raise ValueError("improper list")
    if t["n"] in ("=", "\\=") and len(t["a"]) == 2:
        return "%s %s %s" % (render_term(t["a"][0], names, spell), t["n"], render_term(t["a"][1], names, spell))
    return T.render_atom(t["n"]) + "(" + ",".join(render_term(a, names, spell) for a in t["a"]) + ")"


def render_body(b, names):
    k = b["b"]
    if k == "call":
        return render_term(b["g"], names, None)
    if k in ("true", "fail"):
        return k
    if k == "cut":
        return "!"
    if k == "not":
        return "(\\+ " + render_body(b["g"], names) + ")"
    if k == "then":
        return "(%s -> %s)" % (render_body(b["c"], names), render_body(b["t"], names))
    return "(%s %s %s)" % (render_body(b["l"], names), "," if k == "and" else ";", render_body(b["r"], names))


def collect_term(t, strings, ints, vs, names):
    k = t["t"]
    if k == "a":
        strings.add(t["n"])
    elif k == "i":
        ints.add(t["n"] if len(t["n"]) > 4000 else str(int(t["n"])))
    elif k == "v":
        vs.add(names(t["id"]))
    else:
        if not (t["n"] == "." and len(t["a"]) == 2):
            strings.add(t["n"])
        for a in t["a"]:
            collect_term(a, strings, ints, vs, names)


def collect_body(b, strings, ints, vs, names):
    k = b["b"]
    if k == "call":
        collect_term(b["g"], strings, ints, vs, names)
    elif k in ("and", "or"):
        collect_body(b["l"], strings, ints, vs, names); collect_body(b["r"], strings, ints, vs, names)
    elif k == "then":
        collect_body(b["c"], strings, ints, vs, names); collect_body(b["t"], strings, ints, vs, names)
    elif k == "not":
        collect_body(b["g"], strings, ints, vs, names)


def src_from_clauses(clauses, names=None, label=""):
    """clauses: list of {"h","body"}; names: variable id -> source name"""
    names = names or (lambda i: "_" if i >= 900 else "V%d" % i)
    lines = []
    heads = []
    strings, ints, vs = set(), set(), set()
    for c in clauses:
        h = render_term(c["h"], names, None)
        lines.append(h + "." if c["body"] == T.TRUE else h + " :- " + render_body(c["body"], names) + ".")
        key = (c["h"]["n"], len(c["h"].get("a", [])))
        if key not in heads:
            heads.append(key)
        collect_term(c["h"], strings, ints, vs, names)
        collect_body(c["body"], strings, ints, vs, names)
    strings.add("[]") if False else None
    return Src("\n".join(lines) + "\n", heads, sorted(strings), sorted(ints), sorted(vs), label)


# ---------------------------------------------------------------- output side
def _name(n):
    return {"k": "Name", "id": cps(n.id)}


def proj(n):
    if isinstance(n, ast.Module):
        return {"k": "Module", "body": [proj(x) for x in n.body]}
    if isinstance(n, ast.FunctionDef):
        a = n.args
        plain = not (a.vararg or a.kwarg or a.kwonlyargs or a.defaults or a.kw_defaults or a.posonlyargs or n.decorator_list or n.returns)
        assigned = set()
        isgen = False
        for x in ast.walk(n):
            if isinstance(x, ast.Assign):
                for t in x.targets:
                    if isinstance(t, ast.Name):
                        assigned.add(t.id)
            elif isinstance(x, ast.For) and isinstance(x.target, ast.Name):
                assigned.add(x.target.id)
            elif isinstance(x, (ast.Yield, ast.YieldFrom)):
                isgen = True
        return {"k": "FunctionDef", "name": cps(n.name), "args": [cps(x.arg) for x in a.args], "plainargs": bool(plain),
                "isgen": isgen, "assigned": [cps(x) for x in sorted(assigned)], "body": [proj(x) for x in n.body]}
    if isinstance(n, ast.For):
        return {"k": "For", "target": proj(n.target), "iter": proj(n.iter), "body": [proj(x) for x in n.body], "plain": True,
                "orelse": [proj(x) for x in n.orelse]}
    # control flow that can reach nothing by itself (another code generator might prefer it)
    if isinstance(n, ast.While):
        return {"k": "While", "test": proj(n.test), "body": [proj(x) for x in n.body], "orelse": [proj(x) for x in n.orelse]}
    if isinstance(n, ast.Continue):
        return {"k": "Continue"}
    if isinstance(n, ast.BoolOp):
        return {"k": "BoolOp", "values": [proj(v) for v in n.values]}
    if isinstance(n, ast.UnaryOp) and isinstance(n.op, ast.Not):
        return {"k": "Not", "operand": proj(n.operand)}
    if isinstance(n, ast.Compare) and all(isinstance(o, (ast.Is, ast.IsNot, ast.Eq, ast.NotEq)) for o in n.ops):
        return {"k": "Compare", "left": proj(n.left), "rights": [proj(c) for c in n.comparators]}
    if isinstance(n, ast.If):
        return {"k": "If", "test": proj(n.test), "body": [proj(x) for x in n.body], "orelse": [proj(x) for x in n.orelse]}
    if isinstance(n, ast.Assign):
        if len(n.targets) == 1:
            return {"k": "Assign", "target": proj(n.targets[0]), "value": proj(n.value)}
        return {"k": "Other:MultiAssign"}
    if isinstance(n, ast.Expr):
        if isinstance(n.value, ast.Yield):
            return {"k": "ExprYield", "value": proj(n.value.value) if n.value.value is not None else {"k": "Other:None"}}
        if isinstance(n.value, ast.YieldFrom):
            return {"k": "ExprYieldFrom", "value": proj(n.value.value)}
        return {"k": "Other:Expr(%s)" % type(n.value).__name__}
    if isinstance(n, ast.Return):
        return {"k": "Return", "plain": n.value is None}
    if isinstance(n, ast.Break):
        return {"k": "Break"}
    if isinstance(n, ast.Pass):
        return {"k": "Pass"}
    if isinstance(n, ast.Call):
        plain = not n.keywords and not any(isinstance(a, ast.Starred) for a in n.args)
        return {"k": "Call", "func": proj(n.func), "args": [proj(a) for a in n.args], "plain": plain}
    if isinstance(n, ast.List):
        return {"k": "List", "elts": [proj(e) for e in n.elts]}
    if isinstance(n, ast.Name):
        return _name(n)
    if isinstance(n, ast.Constant):
        v = n.value
        if isinstance(v, bool):
            return {"k": "Bool", "v": v}
        if isinstance(v, int):
            return {"k": "Int", "v": str(v)}
        if isinstance(v, str):
            return {"k": "Str", "v": cps(v)}
        if v is None:
            return {"k": "None"}
        return {"k": "Other:Constant(%s)" % type(v).__name__}
    return {"k": "Other:%s" % type(n).__name__}


def flatten(tree):
    """the tree as a table of nodes (children by index, 1-based): JSON readers limit nesting depth"""
    nodes = []

    def go(n):
        idx = len(nodes)
        nodes.append(None)
        m = {}
        for k, v in n.items():
            if isinstance(v, dict) and "k" in v:
                m[k] = go(v)
            elif isinstance(v, list) and v and isinstance(v[0], dict) and "k" in v[0]:
                m[k] = [go(x) for x in v]
            else:
                m[k] = v
        nodes[idx] = m
        return idx + 1
    root = go(tree)
    return {"root": root, "nodes": nodes}


AUDIT = []
_AUDIT_ON = [False]
_AUDIT_INSTALLED = [False]


def _hook(event, args):
    if not _AUDIT_ON[0]:
        return
    if event in ("import", "open", "os.system", "subprocess.Popen", "socket.connect", "os.exec", "os.spawn", "ctypes.dlopen"):
        AUDIT.append(event)
    elif event == "exec":
        code = args[0]
        fn = getattr(code, "co_filename", "")
        if fn != "<verif-load>" and fn not in _ALLOWED_EXEC:
            AUDIT.append("exec:" + str(fn)[:40])


_ALLOWED_EXEC = set()


def observe(src):
    """compile, parse, load, query: returns the record for spec/Emitted.tla"""
    from . import real
    from . import replay
    if not _AUDIT_INSTALLED[0]:
        sys.addaudithook(_hook)
        _AUDIT_INSTALLED[0] = True
    rec = {"heads": [{"name": cps(n), "arity": k} for n, k in src.heads], "strings": [cps(s) for s in src.strings], "ints": list(src.ints),
           "vars": [cps(v) for v in src.variables], "outcome": "returned", "parse_ok": False, "module": flatten({"k": "Module", "body": []}),
           "load_ok": False, "newkeys": [], "genflags": [], "callable": [], "audit": [], "file_ok": True, "label": src.label, "text": src.text[:600]}
    try:
        with contextlib.redirect_stderr(io.StringIO()), contextlib.redirect_stdout(io.StringIO()):
            if src.debug:
                class Ctx:
                    debug_filename = src.debug in (True, "filename")
                    debug_parser = src.debug in (True, "parser")
                    debug_generator = src.debug in (True, "generator")
                    current_source_file = "verif.prolog"
                    outf = io.StringIO()
                code = real.compiler.compile_prolog_from_string(src.text, Ctx)
                out = Ctx.outf.getvalue() + code        # what yldpc -d writes
            else:
                out = real.compiler.compile_prolog_from_string(src.text)
    except RecursionError:
        rec["outcome"] = "rejected"; rec["why"] = "RecursionError"
        return rec
    except Exception as e:
        rec["outcome"] = "rejected"; rec["why"] = type(e).__name__
        return rec
    try:
        tree = ast.parse(out)
        compile(out, "<verif-parse>", "exec")
        rec["parse_ok"] = True
        rec["module"] = flatten(proj(tree))
    except (SyntaxError, ValueError, RecursionError, MemoryError) as e:
        rec["why"] = "output: %s: %s" % (type(e).__name__, str(e)[:80])
        rec["output"] = out[:600]
        return rec
    yp = real.YP()
    # the application has Python predicates of its own; where a head of the program is named like the key one
    # of them has in the engine (tag_1 next to tag/1, foo_n next to a variadic foo) it is registered first
    plain = real.YP()
    for n, k in src.heads:
        m = re.match(r"(.+)_(\d|n)$", n)
        if m:
            def nat(*args):
                # no answers, like the unknown predicate it replaces: a program that happens to call it behaves
                # as in an engine without it
                return
                yield False
            try:
                yp.register_function(m.group(1), nat, arity=-1 if m.group(2) == "n" else int(m.group(2)))
            except Exception:
                pass
    before = set(yp.eval_context)
    del AUDIT[:]
    _AUDIT_ON[0] = True
    try:
        try:
            yp.load_script_from_string(out, fn="<verif-load>")
            rec["load_ok"] = True
        except Exception as e:
            rec["why"] = "load: %s" % type(e).__name__
        new = sorted(set(yp.eval_context) - before)
        rec["newkeys"] = [cps(k) for k in new]
        rec["genflags"] = [bool(inspect.isgeneratorfunction(yp.eval_context[k])) for k in new]
        if rec["load_ok"]:
            for n, k in src.heads:
                ok = True
                try:
                    replay.BUDGET.install()
                    replay.BUDGET.arm(200000)
                    try:
                        q = yp.query(n, [yp.variable() for _ in range(k)])
                        for i, _ in enumerate(q):
                            if i >= 3:
                                break
                        q.close()
                    finally:
                        replay.BUDGET.disarm()
                except replay.BudgetExceeded:
                    ok = True       # a long search is not a loading problem
                except RecursionError:
                    ok = True
                except Exception as e:
                    ok = False
                    rec["why"] = "query %s/%d: %s: %s" % (n, k, type(e).__name__, str(e)[:60])
                rec["callable"].append(ok)
            if set(yp.eval_context) - set(plain.eval_context) - set(new):
                # ... and its predicates answer as they do in an engine without those Python predicates
                try:
                    plain.load_script_from_string(out, fn="<verif-load>")
                    for i, (n, k) in enumerate(src.heads):
                        cnt = []
                        for e in (yp, plain):
                            replay.BUDGET.arm(200000)
                            try:
                                c = 0
                                q = e.query(n, [e.variable() for _ in range(k)])
                                for _ in q:
                                    c += 1
                                    if c >= 3:
                                        break
                                q.close()
                            except (replay.BudgetExceeded, RecursionError, Exception):
                                c = -1
                            finally:
                                replay.BUDGET.disarm()
                            cnt.append(c)
                        if cnt[0] != cnt[1] and -1 not in cnt:
                            rec["callable"][i] = False
                            rec["why"] = "%s/%d has %d answers, %d in an engine without the application's Python predicates" % (n, k, cnt[0], cnt[1])
                except Exception:
                    pass
        if rec["load_ok"]:
            # the documented file route: the same output written to a file (UTF-8) and loaded with
            # load_script_from_file must define the same predicates with the same answers
            n_audit = len(AUDIT)
            fd, path = tempfile.mkstemp(suffix=".py", dir=os.path.join(os.path.dirname(os.path.dirname(os.path.abspath(__file__))), "work"))
            try:
                with os.fdopen(fd, "wb") as f:
                    f.write(out.encode("utf-8"))
                yp2 = real.YP()
                before2 = set(yp2.eval_context)
                del AUDIT[n_audit:]
                _ALLOWED_EXEC.clear()
                _ALLOWED_EXEC.add(path)
                try:
                    yp2.load_script_from_file(path)
                    same = sorted(set(yp2.eval_context) - before2) == new
                    for n, k in src.heads:
                        if not same:
                            break
                        both = []
                        for e in (yp, yp2):
                            vs = [e.variable() for _ in range(k)]
                            got = []
                            replay.BUDGET.arm(200000)
                            try:
                                q = e.query(n, vs)
                                for i, _ in enumerate(q):
                                    got.append(real.project_tuple(vs))
                                    if i >= 3:
                                        break
                                q.close()
                            except (replay.BudgetExceeded, RecursionError):
                                got = None
                            finally:
                                replay.BUDGET.disarm()
                            both.append(got)
                        if None in both:
                            continue
                        same = both[0] == both[1]
                    rec["file_ok"] = bool(same) and [a for a in AUDIT[n_audit:] if a != "open"] == []
                    del AUDIT[n_audit:]
                except RecursionError:
                    del AUDIT[n_audit:]      # Python's own compiler ran out of stack on a huge expression: not decided here
                except Exception as e:
                    rec["file_ok"] = False
                    rec["why"] = "file route: %s: %s" % (type(e).__name__, str(e)[:80])
                    del AUDIT[n_audit:]
            finally:
                os.unlink(path)
    finally:
        _AUDIT_ON[0] = False
    rec["audit"] = list(AUDIT)
    return rec


def _observe_chunk(chunk):
    import threading
    out = []

    def body():
        sys.setrecursionlimit(20000)
        for s in chunk:
            try:
                out.append(observe(s))
            except BaseException as e:
                out.append({"error": "%s: %s" % (type(e).__name__, e)})
    threading.stack_size(512 * 1024 * 1024)
    t = threading.Thread(target=body)
    t.start(); t.join()
    return out


def observe_all(srcs, procs=16, chunk=20):
    chunks = [srcs[i:i + chunk] for i in range(0, len(srcs), chunk)]
    from . import replay as _rp
    outs = _rp.pool_map(_observe_chunk, chunks, procs, maxtasks=20)
    return [r for o in outs for r in o]


def validate(records, which, tag):
    """TLC evaluates spec/Emitted.tla on the records; returns {index: failing clause names}"""
    from . import real
    api = sorted(real.YP().eval_context.keys())
    head = {"callnames": [cps(x) for x in CALLNAMES], "readnames": [cps(x) for x in READNAMES], "apinames": [cps(x) for x in api]}
    slim = [head] + [{k: r[k] for k in ("heads", "strings", "ints", "outcome", "parse_ok", "module", "load_ok", "newkeys", "genflags", "callable", "audit", "file_ok")} for r in records]
    fn = os.path.join(tlc.WORK, "emitted-%s-%d.json" % (tag, os.getpid()))
    with open(fn, "w") as f:
        json.dump(slim, f)
    cfg = os.path.join(tlc.SPEC, "Emitted-%s-%d.cfg" % (which, os.getpid()))
    with open(cfg, "w") as f:
        f.write("INIT Init\nNEXT Next\nINVARIANT Verdict%s\nCHECK_DEADLOCK FALSE\n" % which)
    try:
        res = tlc.run("Emitted", os.path.basename(cfg), env={"TRACE_FILE": fn}, tag="emitted-%s-%d" % (tag, os.getpid()), xss="1g")
    finally:
        os.unlink(fn)
        os.unlink(cfg)
    verdicts = {r["tid"] - 2: r["failing"] for r in res.records}
    return res, verdicts
