"""C18 - compilation is a deterministic function of the source text.

spec/Determinism.tla defines the configuration space (program x string-hash seed x compilations that
happened before in the same process) and the property on recorded outputs; TLC enumerates the
configurations for the driver and decides Deterministic/Covered on what the real compiler returned in
subprocesses started with the given PYTHONHASHSEED (including 'random')."""
import hashlib
import json
import os
import random
import subprocess
import sys

from ..core import Check
from .. import tlc, gen
from ..terms import A, I, V, C, NIL, lst, clause, call, and_, or_, then, not_, conj, TRUE, render_script

REPO = os.environ.get("YLDPROLOG_REPO", "/repo")

CHILD = r'''
import sys, json, hashlib, io, contextlib, os, tempfile
sys.path.insert(0, sys.argv[1])
from yldprolog.compiler import compile_prolog_from_string, compile_prolog_from_file, CompilerContext
progs = json.load(open(sys.argv[2]))
order = json.loads(sys.argv[3])
out = []


def compile_entry(p):
    # a program is a text (compiled from a string with the default options) or {"text", "mode"}:
    # mode "file": compile_prolog_from_file with the default options; mode "named": from a string with options of the
    # application's own that switch debug_filename on (derived from CompilerContext, as its docstring suggests)
    if isinstance(p, str):
        return compile_prolog_from_string(p)
    if p["mode"] == "file":
        fd, path = tempfile.mkstemp(suffix=".prolog")
        try:
            with os.fdopen(fd, "w", encoding="utf-8") as f:
                f.write(p["text"])
            return compile_prolog_from_file(path)
        finally:
            os.unlink(path)
    class Opts(CompilerContext):
        debug_filename = True
        outf = io.StringIO()
    return Opts.outf.getvalue() + compile_prolog_from_string(p["text"], Opts)


for step in order:
    idx, record = step
    try:
        with contextlib.redirect_stderr(io.StringIO()):
            text = compile_entry(progs[idx])
        sha = hashlib.sha256(text.encode("utf-8", "surrogatepass")).hexdigest()
    except Exception as e:
        sha = "EXC:" + type(e).__name__
    if record:
        out.append([idx, sha])
print(json.dumps(out))
'''


def programs(rnd, n):
    out = []
    X = V(0)
    fixed = [
        "p(X) :- q(A,B,C), r(D,E).\n",
        "p(X,Y) :- q(A,B), (r(C) -> s(D,E) ; t(F)), u(G,H,I).\n",
        "a(_,_,X) :- b(_,Y,Z), c(Z,W,_), \\+ d(V,W).\n",
        "m(X) :- (a(A) -> b(B) ; c(C)), (d(D) -> e(E) ; f(F)), (g(G) -> h(H) ; i(I)).\n",
        "n([H|T],f(A,B,C)) :- findall(Q, z(Q,R,S), L), w(L,M,N).\n",
        "k(X) :- X = f(A,B,C,D,E,F,G,H).\nk(Y) :- Y = g(Z1,Z2,Z3), j(Z3,Z2,Z1,Q1,Q2).\n",
    ]
    hv = ["H%d" % i for i in range(16)]
    bv = ["B%d" % i for i in range(40)]
    goals = ", ".join("g%d(%s)" % (k, ",".join((hv + bv)[(k * 7 + j) % 56] for j in range(24))) for k in range(6))
    fixed.append("wide(%s) :- %s.\n" % (",".join(hv), goals))
    fixed.append("wide2(%s) :- ( a(%s) -> b(%s) ; c(%s) ), d(%s).\n" % (",".join(hv[:12]), ",".join(bv[:20]), ",".join(bv[10:30]), ",".join(bv[20:40]), ",".join(bv)))
    # long lists of variables (more than a hundred occurrences in one list term, in heads, bodies and nested)
    lv = ["L%d" % i for i in range(130)]
    fixed.append("longlist([%s]) :- use([%s|T]), more(T, f([%s])).\n" % (",".join(lv), ",".join(reversed(lv[:120])), ",".join(lv[i % 50] for i in range(150))))
    fixed.append("longlist2(X) :- X = [%s], a(%s), [%s] = X.\n" % (",".join(lv[:110]), ",".join(lv[100:130]), ",".join(lv[5:125])))
    fixed.append("manyargs(%s) :- g(%s), h([%s]).\n" % (",".join(lv[:120]), ",".join(reversed(lv[:118])), ",".join(lv[60:130] + lv[:60])))
    # sources that differ only in terms that print alike (a quoted atom spelling a compound's arguments)
    fixed.append("colour(pair(red,green)).\nshape(point(1,2)).\nl([x,y]).\ng(f(a)) :- h(k(a,b)).\n")
    fixed.append("colour(pair('red,green')).\nshape('point(1,2)').\nl(['x,y']).\ng('f(a)') :- h(k('a,b')).\n")
    fixed.append("both(pair('red,green'), pair(red,green)) :- t(['x,y'],[x,y]), t([x,y],['x,y']).\n")
    out.extend(fixed)
    # the same texts through the other entry points and with options of the application's own: the output for a
    # (text, entry point, options) triple may not depend on what was compiled before through another one
    for t in fixed[:4]:
        out.append({"text": t, "mode": "file"})
        out.append({"text": t, "mode": "named"})
    # compilations that raise at different stages (syntax, visitor, code generation of an expression,
    # generator limits): whatever they leave behind must not change later outputs
    poison = ["p(X, foo/2).\n", "p(X) :- q(Y, %s).\n" % ("9" * 5000), "cat(tom) :- 1.\n", "a(X) :- b(X),, c(X).\n", "'two words'(X) :- q(X).\n",
              "deep(X) :- %s.\n" % ", ".join("g(X%d)" % i for i in range(25)), "t(X) :- X = %s.\n" % ("s(" * 150 + "z" + ")" * 150),
              "k(X,Y) :- (a(X,A1) -> b(A1,B1) ; c(Y,C1)), foo/3.\n", "m(X) :- q(X, [A,B|T]), r(T, bar/1, Z).\n"]
    # the same failures after the rejected text has already used every numbered resource of a compilation (anonymous
    # variables, if-then-else labels, loop variables, nesting), and canaries that use them all compiled right before and
    # right after each rejected text (in the forward and in the reverse history): a counter that is only reset when a
    # compilation completes shows in the canary
    prefix = "pz(_, X) :- ( a(X, _) -> b(_) ; c(X, _) ), \\+ d(_), ( e(_) -> f(_) ; g ).\npz(_, _).\n"
    poison = poison + [prefix + t.replace("(X", "(_, X", 1) for t in poison]
    canary = "can%d(_, X) :- ( a(X, _) -> b(_) ; c(X) ), \\+ d(_), ( e(_, Y) -> f(Y, _) ; g ), h([_, _|_]).\ncan%d(_, _).\ncan%d(f(_), [_]) :- x(_), \\+ y(_).\n"
    i = 0
    j = 0
    while len(out) < n:
        if i < len(poison) and j % 2 == 1:
            out.append(canary % (i, i, i))
            out.append(poison[i]); i += 1
            out.append(canary % (i + 100, i + 100, i + 100))
            j += 1
            continue
        j += 1
        s = gen.random_scenario(rnd, {"ctl", "meta", "cut", "db", "dyn"}, nclauses=3, depth=3)
        text = render_script(s["scripts"]["P"], "minimal")
        out.append(text if len(out) % 9 else {"text": text, "mode": ("file", "named")[(len(out) // 9) % 2]})
    out = out[:n]
    return out


def run_child(progfile, order, seed):
    env = dict(os.environ)
    env["PYTHONHASHSEED"] = str(seed)
    env.pop("YLDPROLOG_VERIF", None)
    p = subprocess.run(["/venv/bin/python", "-c", CHILD, os.path.join(REPO, "src"), progfile, json.dumps(order)], env=env, capture_output=True, text=True, timeout=900)
    if p.returncode != 0:
        raise RuntimeError("child failed: " + p.stderr[-500:])
    return json.loads(p.stdout.strip().splitlines()[-1])


def run(tier, seed):
    chk = Check("C18", tier, seed)
    rnd = random.Random(seed)
    n = 120 if tier == "quick" else 600
    progs = programs(rnd, n)
    seeds = ["0", "1", "2", "random"] if tier == "quick" else ["0", "1", "2", "3", "17", "4242", "random"]
    hists = ["fresh", "forward", "reverse", "repeat"]
    pid = os.getpid()
    cfg = os.path.join(tlc.SPEC, "Determinism-enum-%d.cfg" % pid)
    with open(cfg, "w") as f:
        f.write("INIT EnumInit\nNEXT Next\nCONSTANTS NProgs = %d\nSeeds = {%s}\nHistories = {%s}\nINVARIANT EmitConfig\nCHECK_DEADLOCK FALSE\n" %
                (n, ",".join('"%s"' % s for s in seeds), ",".join('"%s"' % h for h in hists)))
    try:
        res = tlc.run("Determinism", os.path.basename(cfg), tag="det-enum-%d" % pid)
    finally:
        os.unlink(cfg)
    chk.add_tlc(res, ["Configs"])
    configs = res.records
    progfile = os.path.join(tlc.WORK, "C18-progs-%d.json" % pid)
    with open(progfile, "w") as f:
        json.dump(progs, f)
    recs = []
    import concurrent.futures
    jobs = []
    for s in seeds:
        want = {h: sorted(c["prog"] - 1 for c in configs if c["seed"] == s and c["history"] == h) for h in hists}
        # fresh: one process per program (batched 1 per process is expensive; a fresh process for groups of 1)
        for idx in want["fresh"]:
            jobs.append((s, "fresh", [[idx, True]]))
        jobs.append((s, "forward", [[i, True] for i in want["forward"]]))
        jobs.append((s, "reverse", [[i, True] for i in reversed(want["reverse"])]))
        rep = []
        for i in want["repeat"]:
            rep.append([i, False]); rep.append([i, True])
        jobs.append((s, "repeat", rep))
    try:
        with concurrent.futures.ThreadPoolExecutor(16) as ex:
            futs = [(s, h, ex.submit(run_child, progfile, order, s)) for (s, h, order) in jobs if order]
            for s, h, fu in futs:
                for idx, sha in fu.result():
                    recs.append({"prog": idx + 1, "seed": s, "history": h, "sha": sha})
    finally:
        os.unlink(progfile)
    fn = os.path.join(tlc.WORK, "C18-recs-%d.json" % pid)
    with open(fn, "w") as f:
        json.dump(recs, f)
    cfg = os.path.join(tlc.SPEC, "Determinism-val-%d.cfg" % pid)
    with open(cfg, "w") as f:
        f.write("INIT ValInit\nNEXT Next\nCONSTANTS NProgs = %d\nSeeds = {%s}\nHistories = {%s}\nINVARIANT Verdict\nCHECK_DEADLOCK FALSE\n" %
                (n, ",".join('"%s"' % s for s in seeds), ",".join('"%s"' % h for h in hists)))
    try:
        res = tlc.run("Determinism", os.path.basename(cfg), env={"TRACE_FILE": fn}, tag="det-val-%d" % pid)
    finally:
        os.unlink(cfg)
        os.unlink(fn)
    chk.add_tlc(res, ["Deterministic", "Covered"])
    for v in res.records:
        chk.evaluations += 1
        chk.validated_traces += 1
        p = v["prog"]
        shas = set(r["sha"] for r in recs if r["prog"] == p)
        if not all(s.startswith("EXC") for s in shas):
            chk.nontrivial.add(p)
        if not v["covered"]:
            chk.machinery_errors.append("configuration space not covered for program %d" % p)
        if not v["deterministic"]:
            by = {}
            for r in recs:
                if r["prog"] == p:
                    by.setdefault(r["sha"], []).append("%s/%s" % (r["seed"], r["history"]))
            chk.violation({"kind": "nondeterministic", "detail": "%d different outputs for one source text" % v["outputs"], "family": "configs",
                           "scenario": {"text": progs[p - 1], "outputs": by}, "features": {"op": "compile", "family": "configs", "varying": "seed" if len(set(r["seed"] for r in recs if r["prog"] == p and r["sha"] != recs[0]["sha"])) else "?"}})
    chk.extra["configurations"] = len(recs)
    chk.extra["programs"] = n
    chk.add_sample({"program": progs[1], "configurations": ["%s/%s" % (s, h) for s in seeds for h in hists]})
    chk.assumptions = ["the oracle for the bytes is the code's own output under the other configurations; the specification contributes the configuration space and the property"]
    return chk.finish(rule="one evaluation per program (compiled under |seeds| x |histories| configurations); non-trivial = the compiler accepted it")
