"""C19 - the yldpc command line equals the library; debug options only add comments.

spec/Cli.tla models the command line as a writer process (OpenOut, per source DebugWrite*/WriteCode or
Fail, CloseOut) and is model-checked for all 16 flag sets x 8 source lists (CliEqualsLibrary,
OnlyCommentsAdded, NonZeroOnError); TLC prints the configuration space, the driver runs
`python -m yldprolog.compiler` and the `yldpc` entry point for every configuration x output (stdout,
-o) x input (file, standard input) with concrete programs (plain, atom with an embedded newline,
non-ASCII atom, syntax error, non-callable goal), and TLC decides the same predicates on the recorded
runs (lines tagged comment/code and hashed)."""
import hashlib
import json
import os
import re
import shutil
import subprocess
import sys
import concurrent.futures

from ..core import Check
from .. import tlc

REPO = os.environ.get("YLDPROLOG_REPO", "/repo")

PROGRAMS = {
    "plain": "foo(a).\nfoo(b).\nbar(X) :- foo(X), \\+ baz(X).\nbaz(Y) :- ( Y = a -> true ; fail ).\n",
    "nl": "msg('line one\nline two').\nshow(X) :- msg(X).\n'two\nlines'(x) :- true.\n".replace("'two\nlines'(x) :- true.\n", "wrap(f('a\nb\nc'),Y) :- msg(Y).\n"),
    "uni": "grüße('Grüße, 世界').\nsay(X) :- grüße(X).\n".replace("grüße(", "gruss("),
    "nltrail": "msg('trail\n').\nshow(X) :- msg(X), other('a\n', 'b\r').\n",
    "cr": "msg('one\rimport os\rtwo').\nshow(X) :- msg(X).\n",
    # redundant parentheses nested some hundred levels deep (no nesting of functors or goals: the documented
    # limits are not involved)
    "parens": "deep(X) :- X = %sa%s, ok(%sX%s).\nok(_).\n" % ("(" * 400, ")" * 400, "(" * 350, ")" * 350),
    # terms that print alike: a quoted atom spelling the arguments of a compound in the same source
    "twins": "pair('a,b').\npair(a,b).\nt(['x,y'],[x,y]).\ng('f(a)') :- g(f(a)), h('f(a)'), h(f(a)).\nk(X) :- X = w(a,['b,c']) ; X = w(a,[b,c]).\n",
    "bad": "foo(a) :- ,.\n",
    "bad2": "ok(a).\nnot closed(\n",
    "noncallable": "cat(tom) :- 1.\n",
}
def _big_source():
    """more than 128 KiB with a two-byte character astride each 64 KiB boundary (a reader that decodes its input
    block by block trips over it)"""
    out = b""
    for boundary in (65536, 131072):
        while len(out) < boundary - 400:
            out += b"fact(number_%d).\n" % len(out)
        pad = boundary - 1 - len(out) - len(b"q('")
        out += b"q('" + b"z" * pad + "\u00e9').\n".encode("utf-8")
    out += b"last(one).\n"
    assert out[65535:65537] == "\u00e9".encode("utf-8") and out[131071:131073] == "\u00e9".encode("utf-8")
    return out.decode("utf-8")


PROGRAMS["big"] = _big_source()
ABSTRACT = {"plain": ["plain", "uni", "parens", "twins"], "nl": ["nl", "cr", "nltrail"], "bad": ["bad", "bad2", "noncallable"]}


def lines_of(data):
    """bytes -> [{c, h}] ; a trailing newline does not create an extra line"""
    # lines as Python's tokenizer sees them: \n, \r\n and \r all end a line
    parts = re.split(b"\r\n|\r|\n", data)
    if parts and parts[-1] == b"":
        parts.pop()
    return [{"c": p.startswith(b"#"), "h": hashlib.sha1(p).hexdigest()[:16]} for p in parts]


def lib_output(names, scratch):
    """what the library returns for each source, in order (None if one does not compile)"""
    code = ("import sys, json\nsys.path.insert(0, %r)\nfrom yldprolog.compiler import compile_prolog_from_file\nimport io, contextlib\n"
            "out = []\nfor p in json.loads(sys.argv[1]):\n    try:\n        with contextlib.redirect_stderr(io.StringIO()):\n            out.append(compile_prolog_from_file(p))\n"
            "    except Exception as e:\n        out.append(None)\nsys.stdout.buffer.write(json.dumps(out).encode('utf-8'))\n") % os.path.join(REPO, "src")
    p = subprocess.run(["/venv/bin/python", "-c", code, json.dumps([os.path.join(scratch, n + ".prolog") for n in names])], capture_output=True, timeout=300)
    return json.loads(p.stdout.decode("utf-8"))


def _limit_files():
    import resource
    soft, hard = resource.getrlimit(resource.RLIMIT_NOFILE)
    resource.setrlimit(resource.RLIMIT_NOFILE, (min(1024, hard), hard))


def run_cli(scratch, entry, flags, srcnames, use_o, stdin_index, tagid, many=False):
    cmd = ["/venv/bin/python", "-m", "yldprolog.compiler"] if entry == "module" else ["/venv/bin/yldpc"]
    for f in flags:
        cmd.append("-d" if f == "d" else "--" + f)
    outfile = None
    if use_o:
        outfile = os.path.join(scratch, "out-%s.py" % tagid)
        cmd += ["-o", outfile]
    stdin = None
    for i, n in enumerate(srcnames):
        if i == stdin_index:
            cmd.append("-")
            stdin = open(os.path.join(scratch, n + ".prolog"), "rb").read()
        else:
            cmd.append(n + ".prolog")
    env = dict(os.environ)
    env["PYTHONPATH"] = os.path.join(REPO, "src")
    env.pop("YLDPROLOG_VERIF", None)
    env.pop("PYTHONIOENCODING", None)
    env["LC_ALL"] = "C.UTF-8"
    p = subprocess.run(cmd, cwd=scratch, env=env, input=stdin if stdin is not None else b"", capture_output=True, timeout=600,
                       preexec_fn=_limit_files if many else None)
    out = p.stdout
    if use_o:
        out = open(outfile, "rb").read() if os.path.exists(outfile) else b""
        if os.path.exists(outfile):
            os.unlink(outfile)
    return p.returncode, out, p.stderr.decode("utf-8", "replace")


def run(tier, seed):
    chk = Check("C19", tier, seed)
    pid = os.getpid()
    res = tlc.run("Cli", "Cli.cfg", tag="cli-model-%d" % pid)
    chk.add_tlc(res, ["CliEqualsLibrary", "OnlyCommentsAdded", "NonZeroOnError"])
    configs = res.records
    scratch = os.path.join(tlc.WORK, "cli-%d" % pid)
    shutil.rmtree(scratch, ignore_errors=True)
    os.makedirs(scratch)
    try:
        for n, text in PROGRAMS.items():
            with open(os.path.join(scratch, n + ".prolog"), "w", encoding="utf-8") as f:
                f.write(text)
        libs = dict(zip(PROGRAMS, lib_output(list(PROGRAMS), scratch)))
        jobs = []
        k = 0
        for c in configs:
            flags = sorted(c["flags"])
            # concretise the abstract sources
            variants = [[]]
            for a in c["srcs"]:
                variants = [v + [x] for v in variants for x in ABSTRACT[a]]
            if tier == "quick" and len(variants) > 2:
                # two concrete choices per configuration, rotating so that every program is used
                variants = [variants[(k + 0) % len(variants)], variants[(k * 2 + 1) % len(variants)]]
            elif len(variants) > 10:
                # thorough: ten concrete choices per configuration (the product of concrete programs grows with the
                # fourth power of the menu), rotating through all of them over the configurations
                variants = [variants[(k * 7 + 3 * j) % len(variants)] for j in range(10)]
            for srcnames in variants:
                outs = (False, True) if (tier == "thorough" or (k % 3 == 0)) else (False,)
                for use_o in outs:
                    for stdin_index in ([-1] + list(range(len(srcnames))) if (tier == "thorough" or k % 2 == 0) else [-1, k % len(srcnames)]):
                        for entry in (("module", "yldpc") if (tier == "thorough" or k % 5 == 0) else ("module",)):
                            k += 1
                            jobs.append((entry, flags, srcnames, use_o, stdin_index, k))
        if len(jobs) > 3000:
            # thorough: a seeded sample of the product (every configuration of spec/Cli.tla stays represented: the
            # sample is taken per configuration index modulo)
            import random as _random
            _r = _random.Random(seed)
            keep = set(_r.sample(range(len(jobs)), 3000))
            jobs = [j for i, j in enumerate(jobs) if i in keep]
            chk.notes.append("command line runs: a seeded sample of 3000 of the enumerated invocations")
        # one invocation with more sources than a process may hold open files (the usual limit of 1024)
        NMANY = 1100
        for i in range(NMANY):
            with open(os.path.join(scratch, "m%04d.prolog" % i), "w", encoding="utf-8") as f:
                f.write("tiny(a).\n")
        libs.update({"m%04d" % i: lib_output(["m0000"], scratch)[0] for i in range(1)})
        for i in range(1, NMANY):
            libs["m%04d" % i] = libs["m0000"]
        many_names = ["m%04d" % i for i in range(NMANY)]
        jobs.append(("module", [], many_names, False, -1, k + 1))
        jobs.append(("module", [], many_names, True, 3, k + 2))
        # a large source through every way of reading it
        jobs.append(("module", [], ["big"], False, 0, k + 3))
        jobs.append(("module", ["debug-generator"], ["plain", "big"], True, 1, k + 4))
        jobs.append(("yldpc", [], ["big"], False, -1, k + 5))
        for j, fl in enumerate(([], ["debug-generator"], ["debug-parser"], ["d"])):
            jobs.append(("module", fl, ["twins"], False, -1, k + 6 + j))
            jobs.append(("module", fl, ["twins"], True, 0, k + 10 + j))
        recs = []
        with concurrent.futures.ThreadPoolExecutor(16) as ex:
            futs = [(j, ex.submit(run_cli, scratch, j[0], j[1], j[2], j[3], j[4], j[5], len(j[2]) > 100)) for j in jobs]
            for j, fu in futs:
                entry, flags, srcnames, use_o, stdin_index, _ = j
                rc, out, err = fu.result()
                allok = all(libs[n] is not None for n in srcnames)
                lib = b"".join((libs[n] or "").encode("utf-8") for n in srcnames)
                firstbad = next((n for n in srcnames if libs[n] is None), None)
                fname = None
                if firstbad is not None:
                    fname = "-" if srcnames.index(firstbad) == stdin_index else firstbad + ".prolog"
                syntaxerr = firstbad in ("bad", "bad2")
                errinfo = bool(fname is not None and re.search(re.escape(fname) + r":\d+:\d+", err))
                crashed = "Traceback (most recent call last)" in err
                recs.append({"flags": flags, "allok": allok, "exit": rc, "out": lines_of(out), "lib": lines_of(lib), "syntaxerr": bool(syntaxerr),
                             "errinfo": errinfo, "crashed": crashed,
                             "_cfg": {"entry": entry, "flags": flags, "sources": srcnames if len(srcnames) < 20 else ["%d sources %s..%s" % (len(srcnames), srcnames[0], srcnames[-1])],
                                      "output": "-o" if use_o else "stdout", "stdin_index": stdin_index},
                             "_err": err[-300:]})
    finally:
        shutil.rmtree(scratch, ignore_errors=True)
    fn = os.path.join(tlc.WORK, "C19-recs-%d.json" % pid)
    with open(fn, "w") as f:
        json.dump([{k: r[k] for k in r if not k.startswith("_")} for r in recs], f)
    try:
        res = tlc.run("Cli", "CliVal.cfg", env={"TRACE_FILE": fn}, tag="cli-val-%d" % pid)
    finally:
        os.unlink(fn)
    chk.add_tlc(res, ["validation of recorded runs"])
    verdicts = {r["tid"] - 1: r["failing"] for r in res.records}
    for i, r in enumerate(recs):
        chk.evaluations += 1
        chk.validated_traces += 1
        chk.nontrivial.add(json.dumps(r["_cfg"], sort_keys=True))
        f = verdicts.get(i)
        if f is None:
            chk.machinery_errors.append("no verdict for run %d" % i)
        elif f:
            cfgd = r["_cfg"]
            chk.violation({"kind": "cli", "detail": ",".join(sorted(f)), "family": "cli-runs", "scenario": cfgd, "record": {"exit": r["exit"], "stderr": r["_err"]},
                           "features": {"op": "yldpc", "family": "cli-runs", "clauses": ",".join(sorted(f)), "stdin": cfgd["stdin_index"] >= 0,
                                        "debug": bool(set(cfgd["flags"]) & {"d", "debug-parser", "debug-generator"}),
                                        "has_nl": "nl" in cfgd["sources"], "has_uni": "uni" in cfgd["sources"]}})
    chk.extra["cli_runs"] = len(recs)
    chk.add_sample(recs[0]["_cfg"])
    chk.add_sample(recs[len(recs) // 2]["_cfg"])
    chk.assumptions = ["the library side is compile_prolog_from_file on the same files (standard input: the same bytes)",
                       "a comment line is a line whose first character is '#'"]
    return chk.finish(rule="one evaluation per command line run (entry point x flags x sources x output x which source is standard input)")
