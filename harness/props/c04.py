"""C04 - engine instances are isolated; interleaved queries do not interfere.

spec/YP.tla in `threads` mode: every engine follows its own script of API/generator steps; TLC
enumerates EVERY interleaving of the scripts (action TakeT) and predicts, after every step, the
observation and the database contents of ALL engines (in the specification the engines' state is
disjoint by construction, so an operation on one engine never changes the prediction for another:
the specification is the isolation oracle).  Each interleaving is replayed three ways: on one OS
thread in the enumerated order; with one OS thread per script and a baton that hands control over
exactly at the enumerated points; and (thorough) with free-running threads under a 1 microsecond
switch interval, where every thread must observe exactly what the specification predicts for its
script alone.  Within one engine: two suspended side-effect-free queries over disjoint variables."""
import itertools
import random
import sys
import threading

from ..core import Check
from .. import replay
from ..terms import A, I, V, C, NIL, lst, clause, call, and_, or_, then, not_, conj, CUT
from .c05 import features

KEYS = [{"n": "foo", "k": 1}, {"n": "d", "k": 1}]


def scripts(tag):
    X, Y = V(0), V(1)
    a = lambda s: A(tag + s)
    return {
        "A" + tag: {"foo/1": [clause(C("foo", a("a1"))), clause(C("foo", a("a2"))), clause(C("foo", a("a3")))],
                    "bar/2": [clause(C("bar", X, Y), conj(call(C("foo", X)), or_(then(call(C("d", Y)), CUT), call(C("=", Y, a("none"))))))],
                    "upd/1": [clause(C("upd", X), conj(call(C("foo", X)), call(C("assertz", C("d", X)))))]},
        "B" + tag: {"foo/1": [clause(C("foo", a("b1")))], "app/3": [clause(C("app", NIL, X, X)), clause(C("app", lst([V(0)], V(1)), V(2), lst([V(0)], V(3))), call(C("app", V(1), V(2), V(3))))]},
    }


def thread_catalogue(t, e, tag, rnd, n_random):
    """operation sequences for thread t on engine e"""
    r0 = 10 * t
    rows = [{"args": [A(tag + "py")], "nv": 0}]
    def L(s, ow=True): return {"op": "load", "e": e, "script": s + tag, "ow": ow, "t": t}
    def Q(i, g, qnv): return {"op": "query", "e": e, "r": r0 + i, "goal": g, "qnv": qnv, "t": t}
    def N(i): return {"op": "next", "r": r0 + i, "t": t}
    def Cl(i, how="close"): return {"op": "close", "r": r0 + i, "how": how, "t": t}
    def S(i, g, qnv, k=0): return {"op": "solve", "e": e, "r": r0 + i, "goal": g, "qnv": qnv, "k": k, "t": t}
    def As(term, atEnd=True): return {"op": "assert", "e": e, "term": term, "atEnd": atEnd, "r": 0, "t": t}
    Reg = {"op": "register", "e": e, "name": "foo", "arity": 1, "style": "inferred", "fid": "f" + tag, "rows": rows, "raise": {"call": 0, "row": 0}, "yields": False, "t": t}
    Clr = {"op": "clear", "e": e, "t": t}
    foo, bar, upd = C("foo", V(0)), C("bar", V(0), V(1)), C("upd", V(0))
    hand = [
        [L("A"), Q(1, foo, 1), N(1), N(1), Clr],
        [As(C("d", A(tag + "1"))), As(C("d", A(tag + "2")), False), S(1, C("retract", C("d", V(0))), 1, 1), S(2, C("d", V(0)), 1)],
        [Reg, Q(1, foo, 1), N(1), L("A"), N(1)],
        [L("A"), Q(1, bar, 2), N(1), As(C("d", A(tag + "x"))), N(1)],
        [L("A"), L("B", False), S(1, foo, 1), Clr, S(2, foo, 1)],
        [L("A"), Q(1, upd, 1), N(1), N(1), Cl(1, "drop")],
        [L("B"), Q(1, C("app", V(0), V(1), lst([A(tag + "p"), A(tag + "q")])), 2), N(1), N(1), N(1)],
        [L("A"), S(1, upd, 1), S(2, C("retractall", C("d", V(0))), 1), S(3, C("d", V(0)), 1)],
        [L("B"), Reg, S(1, foo, 1), L("A", False), S(2, foo, 1)],
    ]
    same = C("same", V(0), V(0))
    hand.append([As(same), As(C("tri", V(0), V(1), V(0))), S(1, C("same", A(tag + "s"), V(0)), 1), S(2, C("tri", A(tag + "t"), V(0), V(1)), 2), S(3, C("same", V(0), C("f", V(1))), 2)])
    hand.append([As(same), Q(1, C("same", V(0), A(tag + "u")), 1), N(1), S(2, C("same", C("g", V(0)), C("g", A(tag + "w"))), 1), N(1)])
    hand.append([As(C("d", A(tag + "1"))), S(1, C("retractall", C("d", V(0))), 1), As(C("d", A(tag + "2"))), S(2, C("d", V(0)), 1)])
    hand.append([As(C("foo", A(tag + "f"))), S(1, C("retractall", C("foo", V(0))), 1), S(2, C("retractall", C("d", V(0))), 1), As(C("foo", A(tag + "g"))), S(3, C("d", V(0)), 1)])
    menu = [lambda i: L("A"), lambda i: L("B"), lambda i: L("A", False), lambda i: L("B", False), lambda i: As(C("d", A(tag + str(i)))),
            lambda i: As(C("foo", A(tag + "fact")), False), lambda i: S(50 + i, C("retract", C("d", V(0))), 1, 1), lambda i: Reg, lambda i: Clr,
            lambda i: Q(1, foo, 1), lambda i: Q(2, bar, 2), lambda i: N(1), lambda i: N(2), lambda i: Cl(1), lambda i: Cl(2, "drop"),
            lambda i: S(60 + i, foo, 1), lambda i: S(70 + i, upd, 1, 2), lambda i: S(80 + i, C("retractall", C("d", V(0))), 1),
            lambda i: S(90 + i, C("retractall", C("foo", V(0))), 1)]
    rand = []
    for _ in range(n_random):
        n = rnd.randint(3, 5)
        rand.append([rnd.choice(menu)(i) for i in range(n)])
    return hand, rand


def same_engine_scenarios():
    """two suspended side-effect-free queries over disjoint variables in ONE engine"""
    sc = scripts("z")
    prog = dict(sc["Az"]); prog.update({"app/3": sc["Bz"]["app/3"]})
    scns = []
    goals = [(C("foo", V(0)), 1), (C("bar", V(0), V(1)), 2), (C("app", V(0), V(1), lst([A("p"), A("q"), A("r")])), 2)]
    prog["r/2"] = [clause(C("r", V(0), V(1)), conj(call(C("eq", V(0), V(2))), call(C("num", V(1)))))]
    goals = goals + [(C("r", V(0), V(1)), 2), (C("eq", V(0), A("b")), 1), (C("eq", C("f", V(0)), V(1)), 2),
                     # facts whose variables sit below the top level of their arguments
                     (C("holds", C("box", A("apple"))), 0), (C("holds", C("box", V(0))), 1), (C("holds", C("pair", A("k"), C("box", A("pear")))), 0)]
    for (g1, q1), (g2, q2) in itertools.product(goals, repeat=2):
        t1 = [{"op": "query", "e": 1, "r": 1, "goal": g1, "qnv": q1, "t": 1}] + [{"op": "next", "r": 1, "t": 1}] * 3 + [{"op": "close", "r": 1, "how": "close", "t": 1}]
        t2 = [{"op": "query", "e": 1, "r": 2, "goal": g2, "qnv": q2, "t": 2}] + [{"op": "next", "r": 2, "t": 2}] * 3 + [{"op": "close", "r": 2, "how": "drop", "t": 2}]
        t0 = [{"op": "load", "e": 1, "script": "P", "ow": True, "t": 3},
              {"op": "assert", "e": 1, "term": C("eq", V(0), V(0)), "atEnd": True, "r": 0, "t": 3},
              {"op": "assert", "e": 1, "term": C("holds", C("box", V(0))), "atEnd": True, "r": 0, "t": 3},
              {"op": "assert", "e": 1, "term": C("holds", C("pair", V(0), C("box", V(1)))), "atEnd": True, "r": 0, "t": 3},
              {"op": "assert", "e": 1, "term": C("num", I(1)), "atEnd": True, "r": 0, "t": 3},
              {"op": "assert", "e": 1, "term": C("num", I(2)), "atEnd": True, "r": 0, "t": 3}]
        scns.append({"engines": 1, "scripts": {"P": prog}, "steps": [[op] for op in t0], "threads": [t1[:4], t2[:4]], "keys": KEYS + [{"n": "eq", "k": 2}]})
    return scns


def free_run(chk, items, seed, limit):
    """free-running OS threads: every thread executes its own operations; what it observes must be
    what the specification predicts for that script (the interleaving is left to the OS)"""
    from .. import real
    rnd = random.Random(seed)
    items = list(items)
    rnd.shuffle(items)
    old = sys.getswitchinterval()
    sys.setswitchinterval(1e-6)
    done = 0
    try:
        for scn, rec in items[:limit]:
            if scn.get("engines", 1) < 2:
                continue
            runner = real.Runner(scn)
            per = {}
            for h in rec["hist"]:
                per.setdefault(h["op"]["t"], []).append(h)
            errs = []
            start = threading.Barrier(len(per))

            def body(hs):
                start.wait()
                for h in hs:
                    if h["obs"]["k"] in ("budget", "cyclic", "unspec") or h["obs"].get("end") in ("budget", "cyclic", "unspec"):
                        return
                    try:
                        obs = runner.apply(h["op"])
                    except Exception as e:
                        errs.append({"op": h["op"], "kind": "exception", "detail": "%s: %s" % (type(e).__name__, e)})
                        return
                    if replay.norm(replay._strip(obs)) != replay.norm(replay._strip(h["obs"])):
                        errs.append({"op": h["op"], "kind": "answers", "detail": "free-running thread observed something else than its script alone", "expected": h["obs"], "observed": obs})
                        return
                    e = h["op"].get("e")
                    if e:
                        dbs = real.project_db(runner.yps[e - 1], runner.keys)
                        if replay.norm(dbs) != replay.norm(h["st"]["dbs"][e - 1]):
                            errs.append({"op": h["op"], "kind": "db", "detail": "free-running: database of the thread's own engine differs", "expected": h["st"]["dbs"][e - 1], "observed": dbs})
                            return
            ths = [threading.Thread(target=body, args=(hs,)) for hs in per.values()]
            for t in ths:
                t.start()
            for t in ths:
                t.join()
            runner.finish()
            done += 1
            if errs:
                v = dict(errs[0]); v.update(family="free-threads", scenario=scn, record=rec, features={"op": errs[0]["op"]["op"], "family": "free-threads"})
                chk.violation(v)
    finally:
        sys.setswitchinterval(old)
    chk.validated_traces += done
    chk.extra["free_running_thread_runs"] = done


def stress_scenario(tag, n):
    steps = [[{"op": "assert", "e": 1, "term": C("same", V(0), V(0)), "atEnd": True, "r": 0}],
             [{"op": "assert", "e": 1, "term": C("tri", V(0), V(1), V(0)), "atEnd": True, "r": 0}],
             [{"op": "assert", "e": 1, "term": C("same", C("w", V(0), V(1)), C("w", V(1), V(0))), "atEnd": True, "r": 0}]]
    for i in range(n):
        a = A("%s%d" % (tag, i))
        g = [C("same", a, V(0)), C("tri", a, V(0), V(1)), C("same", C("w", a, V(0)), V(1)), C("same", V(0), C("f", a))][i % 4]
        from ..terms import term_vars
        steps.append([{"op": "solve", "e": 1, "r": i + 1, "goal": g, "qnv": len(term_vars(g)), "k": 0}])
    return {"engines": 1, "scripts": {}, "steps": steps, "keys": []}


def free_stress(chk, recs_scns, rounds):
    """two engines, each driven by its own OS thread through a long sequence of queries against facts
    with repeated variables, 1 microsecond switch interval; each thread compares with the prediction
    for its engine alone"""
    from .. import real
    (sa, ra), (sb, rb) = recs_scns
    old = sys.getswitchinterval()
    sys.setswitchinterval(1e-6)
    bad = None
    done = 0
    try:
        for _ in range(rounds):
            errs = []
            start = threading.Barrier(2)

            def body(scn, rec):
                runner = real.Runner(scn, opts={"c15": False})
                start.wait()
                for h in rec["hist"]:
                    if h["obs"]["k"] in ("budget", "cyclic", "unspec") or h["obs"].get("end") in ("budget", "cyclic", "unspec"):
                        return
                    try:
                        obs = runner.apply(h["op"])
                    except Exception as e:
                        errs.append({"op": h["op"], "kind": "exception", "detail": "%s: %s" % (type(e).__name__, e)})
                        return
                    if replay.norm(replay._strip(obs)) != replay.norm(replay._strip(h["obs"])):
                        errs.append({"op": h["op"], "kind": "answers", "detail": "free-running thread observed something else than its engine alone",
                                     "expected": replay._strip(h["obs"]), "observed": replay._strip(obs)})
                        return
            ths = [threading.Thread(target=body, args=(sa, ra)), threading.Thread(target=body, args=(sb, rb))]
            for t in ths:
                t.start()
            for t in ths:
                t.join()
            done += 1
            if errs:
                bad = errs[0]
                break
    finally:
        sys.setswitchinterval(old)
    chk.validated_traces += done
    chk.extra["free_running_stress_rounds"] = done
    if bad:
        v = dict(bad); v.update(family="free-threads-stress", scenario={"ops": [h["op"] for h in ra["hist"][:6]]}, record=None,
                                features={"op": bad["op"]["op"], "family": "free-threads-stress"})
        chk.violation(v)


def run(tier, seed):
    chk = Check("C04", tier, seed)
    rnd = random.Random(seed)
    sc = {}
    sc.update(scripts("x")); sc.update(scripts("y"))
    h1, r1 = thread_catalogue(1, 1, "x", rnd, 6 if tier == "quick" else 30)
    h2, r2 = thread_catalogue(2, 2, "y", rnd, 6 if tier == "quick" else 30)
    c1, c2 = h1 + r1, h2 + r2
    pairs = list(itertools.product(range(len(c1)), range(len(c2))))
    rnd.shuffle(pairs)
    pairs = pairs[:40 if tier == "quick" else 400]
    # the hand-made scripts that empty a predicate and assert again meet each other in any case
    nh = len(h1)
    for i in (nh - 2, nh - 1):
        for j in (nh - 2, nh - 1):
            if (i, j) not in pairs:
                pairs.append((i, j))
    scns = []
    for i, j in pairs:
        a, b = c1[i], c2[j]
        if tier == "quick":
            a, b = a[:4], b[:4]
        scns.append({"engines": 2, "scripts": sc, "steps": [], "threads": [a, b], "keys": KEYS})
    recs, results = chk.machine_family("two-engines-all-interleavings", scns, features=features,
                                       opts_list=[{}, {"baton": True}, {"same_fn": True}])
    # same engine, two suspended queries
    se = same_engine_scenarios()
    chk.machine_family("one-engine-two-queries", se, features=features, opts_list=[{}, {"baton": True}])
    # what one engine does to the interpreter is everybody's business: loads that fail (syntax error, exception
    # at top level), evaluate_bounded, abandoned queries - run under the interpreter's default recursion limit,
    # which must be what it was after every step
    fl = []
    for how in ("raise", "syntax"):
        ta = [{"op": "loadfail", "e": 1, "script": "Ax", "how": how, "t": 1}, {"op": "load", "e": 1, "script": "Ax", "ow": True, "t": 1},
              {"op": "solve", "e": 1, "r": 1, "goal": C("foo", V(0)), "qnv": 1, "k": 1, "via": {"exc": "KeyboardInterrupt"}, "t": 1},
              {"op": "loadfail", "e": 1, "script": "Bx", "how": how, "t": 1}]
        tb = [{"op": "load", "e": 2, "script": "By", "ow": True, "t": 2}, {"op": "solve", "e": 2, "r": 11, "goal": C("app", V(0), V(1), lst([A("p"), A("q")])), "qnv": 2, "k": 0, "t": 2},
              {"op": "solve", "e": 2, "r": 12, "goal": C("foo", V(0)), "qnv": 1, "k": 0, "via": {"exc": "Exception"}, "t": 2}]
        fl.append({"engines": 2, "scripts": sc, "steps": [], "threads": [ta, tb], "keys": KEYS})
    chk.machine_family("failing-loads-and-bounded-queries-under-the-default-limit", fl, {"reclimit": 1000, "must_complete": True}, features=features)
    # two different scripts that a cache keyed by name, length and CRC-32 cannot tell apart, one per engine
    co = []
    pairsc = {"R": {"colour/1": [clause(C("colour", A("red")))], "n/1": [clause(C("n", I(1)))]},
              "B": {"colour/1": [clause(C("colour", A("blue"))), clause(C("colour", A("navy")))], "m/1": [clause(C("m", I(2)))]}}
    for e1, e2 in ((1, 2), (1, 1)):
        ta = [{"op": "load", "e": e1, "script": "R", "ow": True, "collide": ["R", "B"], "t": 1}, {"op": "solve", "e": e1, "r": 1, "goal": C("colour", V(0)), "qnv": 1, "k": 0, "t": 1}]
        tb = [{"op": "load", "e": e2, "script": "B", "ow": True, "collide": ["R", "B"], "t": 2}, {"op": "solve", "e": e2, "r": 11, "goal": C("colour", V(0)), "qnv": 1, "k": 0, "t": 2},
              {"op": "solve", "e": e2, "r": 12, "goal": C("m", V(0)), "qnv": 1, "k": 0, "t": 2}]
        co.append({"engines": 2, "scripts": pairsc, "steps": [], "threads": [ta, tb], "keys": []})
    chk.machine_family("scripts-with-equal-name-length-and-checksum", co, {"must_complete": True}, features=features)
    # above the small cases: one script text of more than 32 KiB loaded into both engines, one fact of
    # several hundred nodes matched by two suspended queries
    from .. import gen as _g
    SG = _g.scale_groups()
    chk.machine_family("large-script-two-engines", SG["bigscript"], {"budget_extra": 20000000, "must_complete": True}, features=features, max_steps=8000)
    chk.machine_family("large-fact-two-queries", SG["bigfact"], {"budget_extra": 20000000, "must_complete": True}, features=features, max_steps=8000)
    if tier == "thorough":
        free_run(chk, [(scns[r["id"] - 1], r) for r in recs], seed, 2000)
    else:
        free_run(chk, [(scns[r["id"] - 1], r) for r in recs], seed, 150)
    st = [stress_scenario("x", 70), stress_scenario("y", 70)]
    srecs, _ = chk.machine_family("stress-alone", st, features=features)
    by = {r["id"]: r for r in srecs}
    free_stress(chk, [(st[0], by[1]), (st[1], by[2])], 25 if tier == "quick" else 300)
    chk.exhaustive = True
    # random API sessions (loads, registrations, asserts through both routes, queries advanced step by
    # step and abandoned between updates, clears) over unusual term shapes; decided by the machine
    from .. import gen as _gen
    _rnd = random.Random(seed * 7919 + 4)
    _ss = [_gen.api_session(_rnd, engines=2, length=_rnd.randint(6, 14)) for _ in range(250 if tier == "quick" else 4000)]
    for _i in range(0, len(_ss), 2500):
        chk.machine_family("api-sessions-%d" % (_i // 2500), _ss[_i:_i + 2500], features=features)
    chk.assumptions = ["thread schedules finer than one API/generator step are sampled by the free-running runs, not enumerated",
                       "evaluate_bounded is excluded, as the property says"]
    return chk.finish()
