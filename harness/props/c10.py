"""C10 - text outside the grammar is rejected, never partially compiled.

spec/Syntax.tla is the independent recogniser of the language of prolog.g4 (token level).
TLC (i) classifies EVERY token string up to a length bound over the 21 token kinds + 2 pseudo kinds,
(ii) derives every sentence up to a token bound with the generator (invariant GeneratorSound:
generator within recogniser) and (iii) enumerates every single-edit corruption (delete, insert one
token of each kind, duplicate, swap, truncate, foreign character, opened quote) of sentences,
classifying each.  Every string is rendered to text and given to compile_prolog_from_string:
not in the language => it must raise; in the language and it returns => the `def name_arity`
lines of the output are exactly the clause heads spec/Syntax.tla!ClauseInfo finds."""
import itertools
import json
import multiprocessing
import os
import random
import re

from ..core import Check
from .. import tlc

KINDS = ["ATOM", "VAR", "NUM", "STR", "TRUE", "FAIL", "CUT", "UNOP", "BINOP", "LB", "RB", "DOT", "IF", "LP", "RP",
         "COMMA", "BAR", "SLASH", "NOT", "ARROW", "SEMI"]
ALL = KINDS + ["BAD", "OPENQ"]
FIXED = {"TRUE": "true", "FAIL": "fail", "CUT": "!", "LB": "[", "RB": "]", "DOT": ".", "IF": ":-", "LP": "(", "RP": ")",
         "COMMA": ",", "BAR": "|", "SLASH": "/", "NOT": "\\+", "ARROW": "->", "SEMI": ";"}
BINOPS = ["=", "\\=", "==", "\\==", "<", ">", "=<", ">="]
BADS = ["#", "\"", "$", "@", "&", "{", "~"]


def lexeme(kind, i):
    if kind in FIXED:
        return FIXED[kind]
    if kind == "ATOM":
        return "a%d" % i
    if kind == "VAR":
        return "X%d" % i if i % 3 else "_"
    if kind == "NUM":
        return str(7 + i)
    if kind == "STR":
        return "'q%d z'" % i
    if kind == "UNOP":
        return "-" if i % 2 else "+"
    if kind == "BINOP":
        return BINOPS[i % len(BINOPS)]
    if kind == "BAD":
        return BADS[i % len(BADS)]
    if kind == "OPENQ":
        return "'open q%d" % i
    raise ValueError(kind)


def render(toks, sep=" "):
    return sep.join(lexeme(k, i + 1) for i, k in enumerate(toks))


def head_name(kind, i):
    lx = lexeme(kind, i)
    return lx[1:-1] if kind == "STR" else lx


def expected_defs(toks, clauses):
    """None if a head form is one for which nothing is required"""
    out = set()
    for c in clauses:
        if c["kind"] == "directive":
            continue
        if c["kind"] == "other":
            return None
        out.add("%s_%d" % (head_name(toks[c["start"] - 1], c["start"]), c["arity"]))
    return out


_DEF = re.compile(r"^def (.*)\(([^()]*)\):$", re.M)


class _DebugOptions:
    """every debugging option of CompilerContext switched on (what `yldpc --debug` does)"""
    debug_filename = "input.prolog"
    debug_parser = True
    debug_generator = True
    current_source_file = "input.prolog"
    outf = None


def _compile_one(item):
    toks, inl, clauses = item[:3]
    import io, contextlib, sys
    from .. import real
    text = item[3] if len(item) > 3 and item[3] is not None else render(toks)

    def comp(options):
        try:
            with contextlib.redirect_stderr(io.StringIO()), contextlib.redirect_stdout(io.StringIO()):
                if options is None:
                    out = real.compiler.compile_prolog_from_string(text)
                else:
                    options.outf = io.StringIO()
                    out = real.compiler.compile_prolog_from_string(text, options)
        except Exception as e:
            return ("raised", type(e).__name__)
        except RecursionError:
            return ("raised", "RecursionError")
        return ("returned", sorted(set(m.group(1) for m in _DEF.finditer(out))))
    plain = comp(None)
    # the same text with the debugging options on: what is accepted and what it defines must not depend on them
    dbg = comp(_DebugOptions())
    if dbg != plain and not (dbg[0] == "raised" and plain[0] == "raised"):
        return ("options-differ", {"default": plain, "debug": dbg})
    return plain


def _compile_chunk(chunk):
    return [_compile_one(x) for x in chunk]


def check_strings(chk, family, strings):
    """strings: list of (toks, inl, clauses, tag)"""
    items = [(s[0], s[1], s[2], s[4] if len(s) > 4 else None) for s in strings]
    from .. import replay as _rp
    chunks = [items[i:i + 200] for i in range(0, len(items), 200)]
    outs = [x for o in _rp.pool_map(_compile_chunk, chunks) for x in o]
    n_in = 0
    for st, (what, info) in zip(strings, outs):
        toks, inl, clauses, tag = st[:4]
        text = st[4] if len(st) > 4 and st[4] is not None else render(toks)
        chk.evaluations += 1
        chk.replayed += 1
        if inl:
            n_in += 1
        v = None
        if what == "options-differ":
            if not inl and "returned" in (info["default"][0], info["debug"][0]):
                v = {"kind": "accepted-outside-grammar", "detail": "text that is not a sentence of the grammar is compiled when the debugging options are %s (%s)" %
                     ("on" if info["debug"][0] == "returned" else "off", tag), "observed": info}
            else:
                v = {"kind": "options-differ", "detail": "the debugging options change what the compiler accepts or defines", "observed": info}
        elif not inl and what == "returned":
            v = {"kind": "accepted-outside-grammar", "detail": "compiled text that is not a sentence of the grammar (%s)" % tag}
        elif inl and what == "returned":
            exp = expected_defs(toks, clauses)
            if exp is not None and set(info) != exp:
                v = {"kind": "defs-differ", "detail": "definitions in the output differ from the clause heads of the input"}
                v["expected"], v["observed"] = sorted(exp), info
            if exp is not None:
                chk.nontrivial.add(tuple(toks))
        if not inl and what == "raised":
            chk.nontrivial.add(tuple(toks))
        if v:
            v.update(family=family, scenario={"tokens": toks, "text": text, "in_language": inl, "clauses": clauses},
                     features={"op": "compile", "tag": str(tag).split(":")[0], "first_bad": next((k for k in toks if k in ("BAD", "OPENQ")), ""),
                               "family": family})
            chk.violation(v)
    chk.families.append({"family": family, "strings": len(strings), "in_language": n_in})
    if strings:
        chk.add_sample({"family": family, "tokens": strings[len(strings) // 2][0], "text": render(strings[len(strings) // 2][0]),
                        "in_language": strings[len(strings) // 2][1]})


def _file_route(pair):
    """compile a sentence from a file, overwrite the file with a corruption of the same length, compile again"""
    good, bad, badinl = pair
    import io, contextlib, tempfile
    from .. import real
    d = os.path.join(tlc.WORK, "c10-files")
    os.makedirs(d, exist_ok=True)
    fd, path = tempfile.mkstemp(suffix=".prolog", dir=d)
    os.close(fd)
    out = []
    stamp = None
    try:
        for text in (good, bad):
            with open(path, "w", encoding="utf-8") as f:
                f.write(text)
            # same path, same size, same modification time (as after `cp -p` / `rsync -t`): only the content differs
            if stamp is None:
                st = os.stat(path)
                stamp = (st.st_atime_ns, st.st_mtime_ns)
            else:
                os.utime(path, ns=stamp)
            try:
                with contextlib.redirect_stderr(io.StringIO()):
                    r = real.compiler.compile_prolog_from_file(path)
                out.append(("returned", sorted(set(m.group(1) for m in _DEF.finditer(r)))))
            except Exception as e:
                out.append(("raised", type(e).__name__))
    finally:
        os.unlink(path)
    return out


def _file_chunk(chunk):
    return [_file_route(x) for x in chunk]


def check_file_route(chk, sentences, cor):
    """sentences: [(toks, True, clauses, tag)], cor: corrupted strings with tags; pairs with equal rendered length"""
    by_len = {}
    for toks, inl, clauses, tag in cor:
        if not inl:
            by_len.setdefault(len(render(toks)), []).append(toks)
    pairs = []
    for toks, _, clauses, _ in sentences:
        t = render(toks)
        for b in by_len.get(len(t), [])[:2]:
            pairs.append((t + "\n", render(b) + "\n", False))
        if len(pairs) >= 400:
            break
    from .. import replay as _rp
    chunks = [pairs[i:i + 25] for i in range(0, len(pairs), 25)]
    outs = [x for o in _rp.pool_map(_file_chunk, chunks) for x in o] if chunks else []
    for (good, bad, _), res in zip(pairs, outs):
        chk.evaluations += 1
        chk.replayed += 1
        if len(res) == 2 and res[1][0] == "returned":
            chk.violation({"kind": "accepted-outside-grammar", "detail": "compile_prolog_from_file accepted a file after it was overwritten with text outside the grammar",
                           "family": "file-rewritten-in-place", "scenario": {"first": good, "then": bad, "results": res},
                           "features": {"op": "compile_file", "family": "file-rewritten-in-place", "tag": "file"}})
    chk.families.append({"family": "file-rewritten-in-place", "pairs": len(pairs)})


def write_cfg(name, init, nxt, maxlen, shard, shards, invs):
    p = os.path.join(tlc.SPEC, name)
    with open(p, "w") as f:
        f.write("INIT %s\nNEXT %s\nCONSTANTS MaxLen = %d\nShard = %d\nShards = %d\n%sCHECK_DEADLOCK FALSE\n" %
                (init, nxt, maxlen, shard, shards, "".join("INVARIANT %s\n" % i for i in invs)))
    return p


def hash_str(s):
    h = 7
    for i, k in enumerate(s):
        h = (h * 31 + len(k) * 5 + (i + 1)) % 9973
    return h


def run(tier, seed):
    chk = Check("C10", tier, seed)
    rnd = random.Random(seed)
    pid = os.getpid()
    # (i) all short strings
    maxlen, shards = (4, 16) if tier == "quick" else (4, 1)
    shard = seed % shards
    cfg = write_cfg("Syntax-short-%d.cfg" % pid, "ShortInit", "Stutter", maxlen, shard, shards, ["EmitIn"])
    try:
        res = tlc.run("Syntax", os.path.basename(cfg), tag="syn-short-%d" % pid)
    finally:
        os.unlink(cfg)
    chk.add_tlc(res, ["InLanguage (every token string up to MaxLen classified)"])
    inl = {tuple(r["toks"]): r["clauses"] for r in res.records}
    strings = []
    for n in range(0, maxlen + 1):
        for s in itertools.product(ALL, repeat=n):
            if shards == 1 or hash_str(s) % shards == shard:
                strings.append((list(s), s in inl, inl.get(s, []), "short"))
    if len(strings) != res.distinct:
        chk.machinery_errors.append("short strings: python enumerated %d, TLC %d" % (len(strings), res.distinct))
    if tier == "quick" and len(strings) > 25000:
        keep = [s for s in strings if s[1]] + rnd.sample([s for s in strings if not s[1]], 25000)
        chk.notes.append("short strings: %d of the shard's %d replayed (all in-language ones)" % (len(keep), len(strings)))
        strings = keep
    check_strings(chk, "all-strings-len<=%d-shard%d/%d" % (maxlen, shard, shards), strings)
    if tier == "thorough":
        # length 5: 23^5 strings are too many for one TLC set; a 1/32 systematic shard (chosen by the seed)
        # is enumerated here and classified by TLC through the JSON mode of spec/Syntax.tla
        sh5 = seed % 32
        five = [list(s5) for s5 in itertools.product(ALL, repeat=5) if hash_str(s5) % 32 == sh5]
        fn = os.path.join(tlc.WORK, "C10-five-%d.json" % pid)
        with open(fn, "w") as f:
            json.dump(five, f)
        cfg = write_cfg("Syntax-five-%d.cfg" % pid, "JsonInit", "Stutter", 99, 0, 1, ["EmitIn"])
        try:
            res = tlc.run("Syntax", os.path.basename(cfg), env={"STRS_FILE": fn}, tag="syn-five-%d" % pid)
        finally:
            os.unlink(cfg)
            os.unlink(fn)
        chk.add_tlc(res, ["InLanguage (1/32 of all token strings of length 5)"])
        inl5 = {tuple(r["toks"]): r["clauses"] for r in res.records}
        check_strings(chk, "all-strings-len5-shard%d/32" % sh5, [(s5, tuple(s5) in inl5, inl5.get(tuple(s5), []), "short5") for s5 in five])
    # (ii) generator
    dl = 7 if tier == "quick" else 8
    cfg = write_cfg("Syntax-derive-%d.cfg" % pid, "DeriveInit", "Derive", dl, 0, 1, ["GeneratorSound", "EmitIn"])
    try:
        res = tlc.run("Syntax", os.path.basename(cfg), tag="syn-derive-%d" % pid)
    finally:
        os.unlink(cfg)
    chk.add_tlc(res, ["GeneratorSound"])
    sentences = [(r["toks"], True, r["clauses"], "derived") for r in res.records]
    chk.notes.append("generator: %d sentences of <= %d tokens" % (len(sentences), dl))
    sample = sentences if len(sentences) <= 12000 else rnd.sample(sentences, 12000 if tier == "quick" else 60000)
    check_strings(chk, "derived-sentences<=%d" % dl, sample)
    # (iii) corruptions of sentences (TLC enumerates every single edit)
    base = rnd.sample(sentences, 150 if tier == "quick" else 2500)
    # plus a few longer hand-written sentences
    longer = [["ATOM", "LP", "VAR", "COMMA", "LB", "VAR", "BAR", "VAR", "RB", "RP", "IF", "ATOM", "LP", "VAR", "RP", "COMMA", "NOT", "ATOM", "DOT"],
              ["ATOM", "IF", "LP", "ATOM", "ARROW", "ATOM", "SEMI", "ATOM", "RP", "COMMA", "CUT", "DOT", "ATOM", "LP", "STR", "RP", "DOT"],
              ["ATOM", "LP", "NUM", "COMMA", "ATOM", "LP", "RP", "RP", "DOT", "IF", "ATOM", "DOT", "ATOM", "IF", "VAR", "BINOP", "LB", "RB", "DOT"]]
    fn = os.path.join(tlc.WORK, "C10-sent-%d.json" % pid)
    with open(fn, "w") as f:
        json.dump([b[0] for b in base] + longer, f)
    cfg = write_cfg("Syntax-corrupt-%d.cfg" % pid, "JsonInit", "CorruptNext", 99, 0, 1, ["EmitAll"])
    try:
        res = tlc.run("Syntax", os.path.basename(cfg), env={"STRS_FILE": fn}, tag="syn-corrupt-%d" % pid)
    finally:
        os.unlink(cfg)
        os.unlink(fn)
    chk.add_tlc(res, ["Corruptions (every single edit classified)"])
    cor = [(r["toks"], r["inl"], r["clauses"], "corrupt:%s" % r["tag"]) for r in res.records if r["tag"] != "json"]
    kinds = set(c[3] for c in cor)
    if len(kinds) < 7:
        chk.machinery_errors.append("vacuity: corruption kinds seen: %s" % sorted(kinds))
    check_strings(chk, "single-edit-corruptions", cor)
    # bracket pairs from other languages around a stretch of a sentence (comment brackets, braces, string
    # quotes): two insertions, each containing a character outside the lexicon
    PAIRS = [("/*", ["SLASH", "BAD"], "*/", ["BAD", "SLASH"]), ("(*", ["LP", "BAD"], "*)", ["BAD", "RP"]), ("{", ["BAD"], "}", ["BAD"]),
             ("#|", ["BAD", "BAR"], "|#", ["BAR", "BAD"]), ('"', ["BAD"], '"', ["BAD"]), ("{-", ["BAD", "UNOP"], "-}", ["UNOP", "BAD"]),
             ("/**", ["SLASH", "BAD", "BAD"], "**/", ["BAD", "BAD", "SLASH"])]
    br = []
    atom_cases = []
    for toks, _inl, _cl, _tag in ([(b[0], True, b[2], "derived") for b in base[:60 if tier == "quick" else 600]] + [(l, True, [], "long") for l in longer]):
        lex = [lexeme(k, i + 1) for i, k in enumerate(toks)]
        for (o, ot, c, ct) in PAIRS:
            for _ in range(2):
                i = rnd.randint(0, len(toks))
                j = rnd.randint(i, len(toks))
                nt = toks[:i] + ot + toks[i:j] + ct + toks[j:]
                text = " ".join(lex[:i] + [o] + lex[i:j] + [c] + lex[j:])
                br.append((nt, text, "pair:" + o))
                # the same with the bracketed stretch at the very end / across a clause boundary in a quoted atom
        # the brackets inside quoted atoms of two clauses around the sentence: all of it is Prolog text
        atom_cases.append((toks, " ".join(lex), "zzp('/*'). " + " ".join(lex) + " zzr('*/')."))
    fn = os.path.join(tlc.WORK, "C10-pairs-%d.json" % pid)
    with open(fn, "w") as f:
        json.dump([b[0] for b in br], f)
    cfg = write_cfg("Syntax-pairs-%d.cfg" % pid, "JsonInit", "Stutter", 99, 0, 1, ["EmitIn"])
    try:
        res = tlc.run("Syntax", os.path.basename(cfg), env={"STRS_FILE": fn}, tag="syn-pairs-%d" % pid)
    finally:
        os.unlink(cfg)
        os.unlink(fn)
    chk.add_tlc(res, ["InLanguage (sentences with foreign bracket pairs inserted)"])
    inlp = {tuple(r["toks"]): r["clauses"] for r in res.records}
    check_strings(chk, "foreign-bracket-pairs", [(nt, tuple(nt) in inlp, inlp.get(tuple(nt), []), tag, text) for nt, text, tag in br])
    for toks, mid, whole in atom_cases:
        a = _compile_one((toks, True, [], mid))
        b = _compile_one((toks, True, [], whole))
        chk.evaluations += 1
        if a[0] == "returned" and (b[0] != "returned" or set(b[1]) != set(a[1]) | {"zzp_1", "zzr_1"}):
            chk.violation({"kind": "defs-differ", "detail": "a sentence between two clauses whose quoted atoms hold comment brackets is compiled differently from the sentence alone",
                           "family": "foreign-bracket-pairs", "expected": sorted(set(a[1]) | {"zzp_1", "zzr_1"}), "observed": b,
                           "scenario": {"tokens": toks, "text": whole}, "features": {"op": "compile", "family": "foreign-bracket-pairs", "tag": "pair-in-atoms"}})
    # the file entry point: the same path compiled twice, the second time holding a corruption of equal length
    check_file_route(chk, [(b[0], True, b[2], "derived") for b in base] + [(l, True, [], "long") for l in longer], cor)
    chk.exhaustive = True
    chk.assumptions = ["spec/Syntax.tla is the transliteration of prolog.g4 (sha256 %s); tokens are rendered with one lexeme per kind and position, separated by blanks" %
                       __import__("hashlib").sha256(open(os.path.join(os.environ.get("YLDPROLOG_REPO", "/repo"), "src/yldprolog/prolog.g4"), "rb").read()).hexdigest()[:16],
                       "nothing is required when a sentence of the grammar is rejected (the visitor may refuse non-callable heads)"]
    return chk.finish()
