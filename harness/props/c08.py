"""C08 - call resolution: facts first, exact arity, load order, late binding.

spec/YP.tla: engine state defs : key -> Seq(definition), vari : name -> definition; DoCallFacts
resolves a call when it is made to the facts of the key (snapshot) followed by the definitions of
exactly that arity in load order (variadic only if none), each definition with its own cut barrier;
load/overwrite/combine/failing load/register/clear are API actions.  TLC enumerates every history
over a menu of such actions; after every action every key of the vocabulary is probed with an
all-variables query and compared with the machine."""
import itertools
import random

from ..core import Check
from ..terms import A, I, V, C, NIL, lst, clause, call, and_, or_, then, not_, conj, CUT
from .c05 import features

KEYS = [{"n": "foo", "k": 1}, {"n": "foo", "k": 2}, {"n": "variable", "k": 0}]


def scripts():
    X, Y = V(0), V(1)
    return {
        "S1": {"foo/1": [clause(C("foo", A("s1a"))), clause(C("foo", A("s1b")), CUT), clause(C("foo", A("s1c")))],
               "bar/1": [clause(C("bar", X), call(C("foo", X)))],
               "late/1": [clause(C("late", X), call(C("later", X)))]},
        "S2": {"foo/1": [clause(C("foo", A("s2a")))], "foo/2": [clause(C("foo", A("s2"), A("two")))],
               "foo_1/0": [clause(A("foo_1"))]},
        "S3": {"later/1": [clause(C("later", A("l3")))], "baz/0": [clause(A("baz"))], "variable/0": [clause(A("variable"))],
               "foo/10": [clause(C("foo", *[A("x")] * 10))]},
        "S4": {"foo/1": [clause(C("foo", X), conj(CUT, call(C("=", X, A("s4cut")))))], "bar/1": [clause(C("bar", A("s4")))]},
        # a script that redefines predicates the engine predefines
        "S5": {"once/1": [clause(C("once", C("foo", X)), call(C("=", X, A("o1")))), clause(C("once", C("foo", X)), call(C("=", X, A("o2"))))],
               "call/2": [clause(C("call", X, Y), call(C("=", Y, C("called", X))))],
               "findall/3": [clause(C("findall", X, Y, lst([A("mine")])))]},
    }


def probes(base):
    gs = [(C("foo", V(0)), 1), (C("foo", V(0), V(1)), 2), (C("bar", V(0)), 1), (C("late", V(0)), 1), (A("baz"), 0), (A("variable"), 0),
          (C("unknown", V(0)), 1), (A("foo_1"), 0), (C("once", C("foo", V(0))), 1), (C("call", A("foo"), V(0)), 1),
          (C("findall", V(0), C("foo", V(0)), V(1)), 2), (A("zero"), 0)]
    return [[{"op": "solve", "e": 1, "r": base + i, "goal": g, "qnv": q, "k": 0}] for i, (g, q) in enumerate(gs)]


def menu():
    rows1 = [{"args": [A("n1")], "nv": 0}]
    rowsv = [{"args": [A("v1")], "nv": 0}, {"args": [A("v1"), A("v2")], "nv": 0}]
    m = []
    for s in ("S1", "S2", "S3", "S4"):
        m.append({"op": "load", "e": 1, "script": s, "ow": True})
        m.append({"op": "load", "e": 1, "script": s, "ow": False})
    m.append({"op": "load", "e": 1, "script": "S4", "ow": True, "extra": "constants"})
    m.append({"op": "load", "e": 1, "script": "S2", "ow": False, "extra": "constants"})
    m.append({"op": "loadfail", "e": 1, "script": "S1", "how": "raise"})
    m.append({"op": "loadfail", "e": 1, "script": "S4", "how": "syntax"})
    m.append({"op": "register", "e": 1, "name": "foo", "arity": 1, "style": "inferred", "fid": "f1", "rows": rows1, "raise": {"call": 0, "row": 0}, "yields": False})
    m.append({"op": "register", "e": 1, "name": "foo", "arity": -1, "style": "variadic", "fid": "fv", "rows": rowsv, "raise": {"call": 0, "row": 0}, "yields": True})
    m.append({"op": "register", "e": 1, "name": "later", "arity": 1, "style": "explicit", "fid": "l1", "rows": [{"args": [A("py")], "nv": 0}], "raise": {"call": 0, "row": 0}, "yields": False})
    m.append({"op": "assert", "e": 1, "term": C("foo", A("fact1")), "atEnd": True, "r": 0})
    m.append({"op": "assert", "e": 1, "term": C("foo", A("fact2"), A("b")), "atEnd": True, "r": 0})
    m.append({"op": "assert", "e": 1, "term": A("variable"), "atEnd": True, "r": 0})
    m.append({"op": "clear", "e": 1})
    m.append({"op": "load", "e": 1, "script": "S5", "ow": True})
    m.append({"op": "load", "e": 1, "script": "S5", "ow": False})
    m.append({"op": "register", "e": 1, "name": "zero", "arity": 0, "style": "explicit-varargs", "fid": "z0", "rows": [{"args": [], "nv": 0}], "raise": {"call": 0, "row": 0}, "yields": False})
    return m


def history_scenario(ops_per_step):
    steps = []
    for i, alts in enumerate(ops_per_step):
        steps.append(alts)
        steps.extend(probes(100 * (i + 1)))
    return {"scripts": scripts(), "steps": steps, "keys": KEYS}


def suspended_scenarios():
    """late binding vs. a query that is already running: the definitions a call uses are those
    registered when the call was made"""
    scns = []
    changes = [{"op": "load", "e": 1, "script": "S2", "ow": True}, {"op": "load", "e": 1, "script": "S2", "ow": False},
               {"op": "register", "e": 1, "name": "foo", "arity": 1, "style": "explicit", "fid": "f1", "rows": [{"args": [A("n1")], "nv": 0}], "raise": {"call": 0, "row": 0}, "yields": False},
               {"op": "load", "e": 1, "script": "S4", "ow": True}]
    for goal in (C("foo", V(0)), C("bar", V(0))):
        for ch in changes:
            steps = [[{"op": "load", "e": 1, "script": "S1", "ow": True}],
                     [{"op": "assert", "e": 1, "term": C("foo", A("f1")), "atEnd": True, "r": 0}],
                     [{"op": "assert", "e": 1, "term": C("foo", A("f2")), "atEnd": True, "r": 0}],
                     [{"op": "query", "e": 1, "r": 1, "goal": goal, "qnv": 1}],
                     [{"op": "next", "r": 1}, ch],
                     [{"op": "next", "r": 1}, ch],
                     [{"op": "next", "r": 1}, ch],
                     [{"op": "next", "r": 1}], [{"op": "next", "r": 1}], [{"op": "next", "r": 1}], [{"op": "next", "r": 1}], [{"op": "next", "r": 1}],
                     [{"op": "solve", "e": 1, "r": 2, "goal": goal, "qnv": 1, "k": 0}]]
            scns.append({"scripts": scripts(), "steps": steps, "keys": KEYS})
    return scns


def lookalike_scenarios():
    """predicate names that differ from an existing name only by characters Python's identifier
    normalisation (NFKC) maps onto it: another predicate, or a program the compiler refuses"""
    scns = []
    for plain, odd in (("fix", "\ufb01x"), ("foo", "\uff46oo"), ("k2", "k\u00b2"), ("ab", "a\u00adb" if False else "\u1d43b")):
        scr = {"U1": {plain + "/1": [clause(C(plain, A("old")))]}, "U2": {odd + "/1": [clause(C(odd, A("new")))], "other/0": [clause(A("other"))]}}
        for first, second in (("U1", "U2"), ("U2", "U1")):
            for ow in (True, False):
                steps = [[{"op": "load", "e": 1, "script": first, "ow": True}], [{"op": "load", "e": 1, "script": second, "ow": ow}],
                         [{"op": "solve", "e": 1, "r": 1, "goal": C(plain, V(0)), "qnv": 1, "k": 0}],
                         [{"op": "solve", "e": 1, "r": 2, "goal": C(odd, V(0)), "qnv": 1, "k": 0}],
                         [{"op": "solve", "e": 1, "r": 3, "goal": A("other"), "qnv": 0, "k": 0}]]
                scns.append({"scripts": scr, "steps": steps, "keys": [], "may_refuse_names": True})
    return scns


def run(tier, seed):
    chk = Check("C08", tier, seed)
    rnd = random.Random(seed)
    m = menu()
    if tier == "quick":
        chk.machine_family("histories-d2", [history_scenario([m, m])], features=features, opts_list=[{}, {"via_file": True}])
        sub = rnd.sample(m, 7)
        chk.machine_family("histories-d3-shard", [history_scenario([sub, sub, sub])], features=features)
    else:
        chk.machine_family("histories-d3", [history_scenario([m, m, m])], features=features)
        sub = rnd.sample(m, 7)
        chk.machine_family("histories-d4-shard", [history_scenario([sub, sub, sub, sub])], features=features)
    chk.machine_family("suspended-late-binding", suspended_scenarios(), features=features, opts_list=[{}, {"via_file": True}])
    chk.machine_family("look-alike-predicate-names", lookalike_scenarios(), features=features)
    from .. import gen as _g
    chk.machine_family("names-that-look-like-something-else", _g.special_name_scenarios(), {"must_complete": True}, features=features, opts_list=[{"must_complete": True}, {"must_complete": True, "via_file": True}])
    chk.exhaustive = True
    need = ["DoCallReserved", "DoCallUnknown", "DoCallNative", "DoCallFacts", "DoCallClause", "DoCut"]
    missing = [e for e in need if not chk.events.get(e)]
    if missing:
        chk.machinery_errors.append("vacuity: spec steps never taken: %s" % missing)
    # random API sessions (loads, registrations, asserts through both routes, queries advanced step by
    # step and abandoned between updates, clears) over unusual term shapes; decided by the machine
    from .. import gen as _gen
    _rnd = random.Random(seed * 7919 + 8)
    _ss = [_gen.api_session(_rnd, engines=1, length=_rnd.randint(6, 14)) for _ in range(250 if tier == "quick" else 4000)]
    for _i in range(0, len(_ss), 2500):
        chk.machine_family("api-sessions-%d" % (_i // 2500), _ss[_i:_i + 2500], features=features)
    chk.assumptions = ["clear() while a query of the same engine is suspended is unspecified and not generated",
                       "a failing load is a script that raises at top level after its function definitions, or Python text with a syntax error"]
    return chk.finish()
