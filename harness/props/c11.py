"""C11 - whatever the compiler accepts loads and defines exactly the program's predicates.

spec/Emitted.tla!DefinesExactly is evaluated by TLC on records of what the real compiler returned
(projection of the Python AST of the output, names added by load_script_from_string, generator
flags, a query per defined predicate).  Programs: boundary lexical forms (numeral spellings, variable
names equal to Python constants / engine names / generator-internal names, atoms equal to Python
keywords and internal names, quoted atoms) in every syntactic position; bodies that can never
succeed, empty bodies; conjunction chains of length 1..100, if-then-else nesting to depth 12, term
nesting to depth 200, lists up to 2000 elements; sentences derived by spec/Syntax.tla rendered with
boundary lexemes.  A rejected input is allowed ('or the compiler itself reports ...')."""
import itertools
import random

from ..core import Check
from .. import emitted
from ..emitted import Src, src_from_clauses
from ..terms import A, I, V, C, NIL, lst, clause, call, and_, or_, then, not_, conj, TRUE, FAIL, CUT

# around CPython's limit for converting integers from and to decimal strings (4300 digits)
HUGE_NUMERALS = ["9" * 4300, "1" + "0" * 4300, "0" * 7 + "9" * 4400, "0" * 5000, "0" * 5000 + "42"]
NUMERALS = ["0", "1", "01", "007", "00", "10", "0123456789", "1234567890123456789012345678901234567890", "00000000000000000000000000000000000000001"]
VARNAMES = ["X", "True", "False", "None", "ATOM_NIL", "__builtins__", "__class__", "__debug__", "_1", "_x", "L1", "Arg1", "DoBreak",
            "CutIf1", "X1", "Variable", "Atom", "Query", "Unify", "Y_y", "NotImplemented", "Ellipsis", "_abc",
            # spellings that whatever suffix or prefix the compiler adds might turn into a reserved or double-underscore name
            "__debug_", "__debug", "_debug__", "__x_", "__", "___", "__class_", "__builtins_", "__import_", "True_", "None_", "__debug___"]
ATOMS = ["foo", "if", "def", "lambda", "class", "import", "l1", "arg1", "doBreak", "cutIf1", "x1", "atom", "query", "variable", "functor", "unify",
         "listpair", "makelist", "none", "not", "is", "in", "yield", "return", "pass", "a_b", "aB9_",
         # names that look like the key another predicate or a registered Python predicate gets in the engine
         "tag_1", "foo_n", "p_0", "tag_1_1", "__aux", "__init__"]
QUOTED = ["hello world", "it's", "\"dq\"", "a\nb", "x)", "):", "#c", "__import__('os')", "{0}", "é", "日本", "'; import os; '", "",
          " ", "\t", "\nimport os\n", "%", "a:-b", "[]", "A", "_", "1", "x" * 300,
          "\ufb01x", "\u210c", "\uff41bc", "x\u00aa", "caf\u00e9", "\u00b5", "\u2160", "\u1e9b\u0323",
          "foo\n", "\nfoo", "foo\r", "foo ", " foo", "9lives", "foo\n\n", "foo\x0b", "foo\x0c", "f\u2028", "foo\x1c", "foo\x85"]


def canon_digits(sp):
    """the value of a numeral as a canonical digit string (no int(): spellings longer than CPython's
    integer-string conversion limit of 4300 digits are part of the menu)"""
    return sp.lstrip("0") or "0"


def num(sp):
    return {"t": "i", "n": canon_digits(sp), "sp": sp}


def positions(atomname):
    """a program with the atom `atomname` in every syntactic position (as far as the grammar allows)"""
    a = A(atomname)
    X, Y = V(0), V(1)
    cls = [
        clause(C("p1", a)),                                            # head argument
        clause(C("p2", C(atomname, X, A("k")))),                        # functor name in a head argument
        clause(C("p3", X), call(C(atomname, X))),                       # body goal name
        clause(C("p4", X), call(a)),                                    # body goal, arity 0
        clause(C("p5", lst([a, X]))),                                   # list element
        clause(C("p6", X, Y), and_(call(C("=", X, a)), call(C("=", C(atomname, Y), C(atomname, A("z")))))),   # both sides of =
        clause(C("p7", lst([a], X))),
        clause(C("p8", X), or_(then(call(C("=", X, a)), TRUE), call(C("\\=", X, C("g", a))))),
    ]
    return cls


def head_position(atomname):
    return [clause(C(atomname, A("a"))), clause(C(atomname, V(0)), call(C("q", V(0)))), clause(A(atomname))]


def var_programs(vn):
    names = lambda i: {0: vn, 1: "Y", 2: "Z"}.get(i, "_" if i >= 900 else "W%d" % i)
    X, Y, Z = V(0), V(1), V(2)
    cls = [clause(C("v1", X, Y), call(C("=", Y, NIL))),                       # head variable + [] (capture of ATOM_NIL)
           clause(C("v2", Y), conj(call(C("q", X)), call(C("=", Y, C("f", X))))),   # body-only variable
           clause(C("v3", X, X)),                                              # repeated in head
           clause(C("v4", C("f", X), lst([X], Y))),                            # nested in head
           clause(C("v5", Y), conj(call(C("=", X, lst([A("a")]))), call(C("=", Y, X)), or_(then(call(C("q", X)), TRUE), FAIL))),
           clause(C("v6", Y), call(C("findall", X, C("q", X), Y)))]
    return src_from_clauses(cls, names, "var:" + vn)


def shape_programs(tier):
    out = []
    X = V(0)
    # failing and empty bodies
    out.append(src_from_clauses([clause(A("f1"), FAIL)], label="fail-only"))
    out.append(src_from_clauses([clause(A("f2"), and_(call(A("q")), FAIL)), clause(C("f2", X), FAIL)], label="goal-then-fail"))
    out.append(src_from_clauses([clause(A("f3"), or_(FAIL, FAIL))], label="fail;fail"))
    out.append(src_from_clauses([clause(A("f4"), not_(TRUE))], label="\\+ true"))
    out.append(src_from_clauses([clause(A("f5"), and_(FAIL, call(A("q"))))], label="fail,q"))
    out.append(src_from_clauses([clause(A("f6"), then(FAIL, TRUE))], label="fail->true"))
    out.append(src_from_clauses([clause(A("f7"), conj(TRUE, TRUE, TRUE))], label="true,true"))
    out.append(src_from_clauses([clause(A("f8"), CUT), clause(A("f8"), and_(CUT, FAIL))], label="cuts"))
    out.append(src_from_clauses([clause(C("f9", X), or_(then(call(C("q", X)), FAIL), FAIL))], label="ite-fail"))
    # conjunction chains
    for n in ([1, 5, 18, 19, 20, 21, 40] if tier == "quick" else [1, 2, 5, 10, 17, 18, 19, 20, 21, 22, 30, 40, 60, 100]):
        goals = [call(C("q", V(i % 3))) for i in range(n)]
        out.append(src_from_clauses([clause(C("chain", V(0)), conj(*goals))], label="conj-chain-%d" % n))
        eqs = [call(C("=", V(i), V(i + 1))) for i in range(n)]
        out.append(src_from_clauses([clause(C("eqchain", V(0)), conj(*eqs))], label="eq-chain-%d" % n))
    # two cooperating clauses: constructs that generate little or no code, followed by a clause at the
    # edge of what Python accepts (state kept by the generator across functions must not drift)
    prefixes = {
        "dead-ite": [clause(A("d1"), or_(then(FAIL, TRUE), FAIL))],
        "dead-ite-x3": [clause(A("d%d" % i), or_(then(FAIL, TRUE), FAIL)) for i in range(3)],
        "dead-not": [clause(A("d1"), not_(TRUE)), clause(A("d2"), and_(FAIL, call(A("q"))))],
        "nested-ite": [clause(C("d1", X), or_(then(call(C("q", X)), or_(then(call(C("r", X)), TRUE), FAIL)), TRUE))],
        "deep-term": [clause(C("d1", C("s", C("s", C("s", lst([A("a"), A("b")]))))))],
        "cuts": [clause(A("d1"), conj(CUT, FAIL)), clause(A("d1"), CUT)],
    }
    for pn, pcl in prefixes.items():
        for n in ([18, 19, 20, 21, 22] if tier == "quick" else range(15, 26)):
            goals = [call(C("q", V(i % 3))) for i in range(n)]
            chain = clause(C("chain", V(0)), conj(*goals))
            out.append(src_from_clauses(pcl + [chain], label="prefix-%s-then-chain-%d" % (pn, n)))
            out.append(src_from_clauses([chain] + pcl, label="chain-%d-then-%s" % (n, pn)))
    # head unification depth: many non-variable head arguments (each one is a nested loop)
    for n in (5, 19, 20, 25):
        out.append(src_from_clauses([clause(C("wide", *[A("a")] * n))], label="wide-head-%d" % n))
    # if-then-else nesting
    for d in ([1, 4, 8, 12] if tier == "quick" else range(1, 13)):
        b = call(C("=", X, A("leaf")))
        for i in range(d):
            b = or_(then(call(C("q", I(i))), b), call(C("=", X, I(i))))
        out.append(src_from_clauses([clause(C("nest", X), b)], label="ite-depth-%d" % d))
    # term nesting
    for d in ([1, 10, 50, 90, 200] if tier == "quick" else [1, 5, 10, 25, 50, 75, 90, 100, 150, 200, 400]):
        t = A("z")
        for _ in range(d):
            t = C("s", t)
        out.append(src_from_clauses([clause(C("deep", t))], label="term-depth-%d" % d))
    for n in ([0, 1, 100, 2000] if tier == "quick" else [0, 1, 2, 10, 100, 500, 1000, 2000]):
        out.append(src_from_clauses([clause(C("biglist", lst([I(i) for i in range(n)])))], label="list-%d" % n))
    # many clauses, several arities of one name
    out.append(src_from_clauses([clause(C("m", I(i))) for i in range(60)] + [clause(C("m", I(1), I(2))), clause(A("m"))], label="arities"))
    return out


def lexeme_programs(tier, rnd):
    out = []
    for sp in NUMERALS + HUGE_NUMERALS:
        n = num(sp)
        out.append(src_from_clauses([clause(C("n1", n)), clause(C("n2", V(0)), call(C("=", V(0), C("f", n, lst([n]))))), clause(C("n3", V(0)), call(C("q", n)))],
                                    label="numeral:" + sp))
    for vn in VARNAMES:
        out.append(var_programs(vn))
    for a in ATOMS + QUOTED:
        out.append(src_from_clauses(positions(a), label="atom-positions:" + repr(a)[:30]))
        out.append(src_from_clauses(head_position(a), label="head-name:" + repr(a)[:30]))
    return out


def derived_sources(chk, tier, rnd, atoms, quoted, varnames, numerals, n):
    """sentences derived by spec/Syntax.tla, rendered with boundary lexemes"""
    import os
    from .. import tlc
    from . import c10
    pid = os.getpid()
    cfg = c10.write_cfg("Syntax-derive-%d.cfg" % pid, "DeriveInit", "Derive", 7 if tier == "quick" else 8, 0, 1, ["GeneratorSound", "EmitIn"])
    try:
        res = tlc.run("Syntax", os.path.basename(cfg), tag="syn-derive-%d" % pid)
    finally:
        os.unlink(cfg)
    chk.add_tlc(res, ["GeneratorSound"])
    recs = [r for r in res.records if r["clauses"] and all(c["kind"] in ("plain", "functor", "directive") for c in r["clauses"])]
    rnd.shuffle(recs)
    out = []
    for r in recs[:n]:
        toks = r["toks"]
        lex = []
        strings, ints, vs = set(), set(), set()
        for i, k in enumerate(toks):
            if k == "ATOM":
                a = rnd.choice(atoms); lex.append(a); strings.add(a)
            elif k == "STR":
                a = rnd.choice(quoted); lex.append("'" + a.replace("'", "\\'") + "'"); strings.add(a)
            elif k == "VAR":
                v = rnd.choice(varnames + ["_"]); lex.append(v)
                if v != "_":
                    vs.add(v)
            elif k == "NUM":
                sp = rnd.choice(numerals); lex.append(sp); ints.add(canon_digits(sp))
            elif k == "UNOP":
                u = rnd.choice("+-"); lex.append(u); strings.add(u)
            elif k == "BINOP":
                b = rnd.choice(c10.BINOPS); lex.append(b); strings.add(b)
            else:
                lex.append(c10.FIXED[k])
        heads = []
        for c in r["clauses"]:
            if c["kind"] == "directive":
                continue
            tok = toks[c["start"] - 1]
            name = lex[c["start"] - 1]
            if tok == "STR":
                name = name[1:-1].replace("\\'", "'")
            if (name, c["arity"]) not in heads:
                heads.append((name, c["arity"]))
        out.append(Src(" ".join(lex) + "\n", heads, sorted(strings), sorted(ints), sorted(vs), "derived:" + " ".join(toks)))
    return out


def run_emitted(prop, which, tier, seed, extra_sources=()):
    chk = Check(prop, tier, seed)
    rnd = random.Random(seed)
    srcs = lexeme_programs(tier, rnd) + shape_programs(tier) + list(extra_sources)
    srcs += derived_sources(chk, tier, rnd, ATOMS, QUOTED, VARNAMES, NUMERALS, 1500 if tier == "quick" else 20000)
    recs = emitted.observe_all(srcs)
    errs = [r for r in recs if "error" in r]
    if errs:
        chk.machinery_errors.append("observe: " + errs[0]["error"])
        recs = [r for r in recs if "error" not in r]
    res, verdicts = emitted.validate(recs, which, prop)
    chk.add_tlc(res, ["DefinesExactly" if which == "C11" else "EmittedOK"])
    rejected = 0
    for i, r in enumerate(recs):
        chk.evaluations += 1
        chk.validated_traces += 1
        if r["outcome"] == "rejected":
            rejected += 1
            continue
        chk.nontrivial.add(r["label"])
        failing = verdicts.get(i)
        if failing is None:
            chk.machinery_errors.append("no verdict for record %d" % i)
            continue
        if failing:
            lab = r["label"]
            chk.violation({"kind": "emitted", "detail": "%s: %s" % (",".join(sorted(failing)), r.get("why", "")), "family": lab.split(":")[0],
                           "scenario": {"text": r["text"], "label": lab}, "record": {k: r[k] for k in r if k != "module"},
                           "features": {"op": "compile", "family": lab.split(":")[0], "label": lab, "clauses": ",".join(sorted(failing)), "why": r.get("why", "")}})
    chk.extra["programs"] = len(recs)
    chk.extra["rejected_by_compiler"] = rejected
    chk.add_sample({"label": recs[3]["label"], "text": recs[3]["text"][:300], "outcome": recs[3]["outcome"], "verdict": verdicts.get(3)})
    chk.add_sample({"label": recs[-5]["label"], "text": recs[-5]["text"][:200], "outcome": recs[-5]["outcome"], "verdict": verdicts.get(len(recs) - 5)})
    return chk


def run(tier, seed):
    chk = run_emitted("C11", "C11", tier, seed)
    chk.assumptions = ["a rejected input (any exception from compile_prolog_from_string) is allowed",
                       "queries against each defined predicate are run with fresh variables and stopped after 3 answers or 200000 calls"]
    return chk.finish(rule="one evaluation per source program; non-trivial = accepted by the compiler; distinct by label")
