"""C07 - the fact database behaves as ordered lists for every history.

TLC enumerates every history of length d over a menu of database operations (YP.tla:
DoAsserta/z, DoRetractStart/Next, DoRetractAll, DoCallFacts, clear, assert_fact); every
history is replayed on the real engine with the full database contents read back after
every step.  Each operation is issued through one of three routes: the Python API
(yp.query('assertz', [term]) / assert_fact), a compiled clause containing the goal, and a
compiled clause that receives the goal in a variable bound at run time."""
import random

from ..core import Check
from ..terms import A, I, V, C, clause, call, and_

# (`atom` is a name of the engine's own API: as a predicate it can only have facts, and those behave like any others)
KEYS = [{"n": "p", "k": 1}, {"n": "q", "k": 0}, {"n": "r", "k": 2}, {"n": "atom", "k": 1}, {"n": "w", "k": 0}]

FACTS_FULL = [C("p", A("a")), C("p", A("b")), C("p", I(70000)), C("p", C("f", V(0))), C("p", V(0)), A("q"),
              C("r", A("a"), A("b")), C("r", V(0), V(0))]
# (an integer above CPython's small-integer cache: every occurrence is built as an object of its own)
FACTS_QUICK = [C("p", A("a")), C("p", I(70000)), C("p", V(0)), A("q"), C("r", V(0), V(0)), C("r", A("a"), A("b"))]
PATS_FULL = [C("p", A("a")), C("p", I(70000)), C("p", V(0)), C("p", C("f", A("a"))), A("q"), C("r", V(0), V(1)), C("r", V(0), V(0)),
             C("r", A("a"), V(0)), C("atom", V(0)), A("w")]
PATS_QUICK = [C("p", A("a")), C("p", I(70000)), C("p", V(0)), A("q"), C("r", V(0), A("b")), C("r", V(0), V(0)), C("atom", V(0)), A("w")]


def nvars(t):
    from ..terms import term_vars
    vs = term_vars(t)
    return (max(vs) + 1) if vs else 0


def menu(facts, pats):
    """abstract operations: (kind, term, k)"""
    ops = []
    for f in facts:
        ops.append(("assertz", f, 0))
        ops.append(("asserta", f, 0))
    for p in pats:
        ops.append(("query", p, 0))
        ops.append(("retract", p, 0))      # run to exhaustion
        ops.append(("retract", p, 1))      # abandoned after its first answer
        ops.append(("retractall", p, 0))
    ops.append(("clear", None, 0))
    return ops


def build(ops, depth, route):
    """one scenario: steps = depth x the whole menu as alternatives"""
    script = {}
    alts_by_step = []
    for step in range(depth):
        alts = []
        for j, (kind, t, k) in enumerate(ops):
            r = step + 1
            if kind == "clear":
                alts.append({"op": "clear", "e": 1})
                continue
            qnv = nvars(t)
            goal = t if kind == "query" else C(kind, t)
            if route == "api":
                if kind in ("assertz", "asserta") and j % 2 == 0 and False:
                    pass
                alts.append({"op": "solve", "e": 1, "r": r, "goal": goal, "qnv": qnv, "k": k})
            elif route == "assert_fact":
                if kind in ("assertz", "asserta"):
                    alts.append({"op": "assert", "e": 1, "term": t, "atEnd": kind == "assertz", "r": 0})
                else:
                    alts.append({"op": "solve", "e": 1, "r": r, "goal": goal, "qnv": qnv, "k": k})
            else:
                name = "w%d" % j
                head = C(name, *[V(i) for i in range(qnv)]) if qnv else A(name)
                if name + "/%d" % qnv not in script:
                    if route == "clause" or kind == "query":
                        body = call(goal)
                    else:  # goal arrives in a variable bound at run time
                        g = V(qnv)
                        body = and_(call(C("=", g, t)), call(C(kind, g)))
                    script[name + "/%d" % qnv] = [clause(head, body)]
                alts.append({"op": "solve", "e": 1, "r": r, "goal": head, "qnv": qnv, "k": k})
        alts_by_step.append(alts)
    steps = []
    scripts = {}
    if script:
        scripts = {"S": script}
        steps.append([{"op": "load", "e": 1, "script": "S", "ow": True}])
    steps.extend(alts_by_step)
    return {"scripts": scripts, "keys": KEYS, "steps": steps}


def clear_scenario(ops):
    """every key known, then clear, then every pair of operations: what was cleared must be independent lists"""
    pre = [C("p", A("a")), C("atom", A("b")), A("q"), A("w"), C("r", A("a"), A("b"))]
    steps = [[{"op": "assert", "e": 1, "term": t, "atEnd": True, "r": 0}] for t in pre]
    steps.append([{"op": "clear", "e": 1}])
    more = list(ops) + [("assertz", C("atom", A("c")), 0), ("assertz", A("w"), 0), ("query", C("atom", V(0)), 0)]
    for step in range(2):
        alts = []
        for j, (kind, t, k) in enumerate(more):
            if kind == "clear":
                continue
            goal = t if kind == "query" else C(kind, t)
            alts.append({"op": "solve", "e": 1, "r": 100 + step, "goal": goal, "qnv": nvars(t), "k": k})
        steps.append(alts)
    return {"scripts": {}, "keys": KEYS, "steps": steps}


def clear_while_suspended():
    """an enumeration or a retract is suspended at an answer, clear(), n further updates, then it is resumed:
    it may not return or remove anything that clear() removed; what was asserted afterwards is a new list"""
    scns = []
    for n in range(0, 7):
        for pre in (2, 3):
            steps = [[{"op": "assert", "e": 1, "term": C("p", A("f%d" % i)), "atEnd": True, "r": 0}] for i in range(pre)]
            steps.append([{"op": "query", "e": 1, "r": 1, "goal": C("retract", C("p", V(0))), "qnv": 1}, {"op": "query", "e": 1, "r": 1, "goal": C("p", V(0)), "qnv": 1}])
            steps.append([{"op": "next", "r": 1}])
            steps.append([{"op": "clear", "e": 1}])
            for i in range(n):
                steps.append([{"op": "assert", "e": 1, "term": C("p", A("n%d" % i)), "atEnd": True, "r": 0},
                              {"op": "solve", "e": 1, "r": 50 + i, "goal": C("asserta", C("p", A("n%d" % i))), "qnv": 0, "k": 0}])
            steps += [[{"op": "next", "r": 1}]] * 3
            steps.append([{"op": "solve", "e": 1, "r": 2, "goal": C("p", V(0)), "qnv": 1, "k": 0}])
            scns.append({"scripts": {}, "keys": KEYS, "steps": steps})
    return scns


def shard(ops, n, seed, keep):
    rnd = random.Random(seed)
    ops = list(ops)
    rnd.shuffle(ops)
    return ops[:keep]


def features(scn, rec, r):
    op = r.get("op", {})
    g = op.get("goal") or op.get("term") or {}
    f = {}
    # what the operation is, independent of the route
    if g.get("n", "").startswith("w") and scn.get("scripts"):
        cls = scn["scripts"]["S"].get("%s/%d" % (g["n"], len(g.get("a", []))))
        if cls:
            b = cls[0]["body"]
            inner = b["r"]["g"] if b["b"] == "and" else b["g"]
            f["dbop"] = inner["n"]
            arg = (b["l"]["g"]["a"][1] if b["b"] == "and" else (inner["a"][0] if inner["n"] in ("assertz", "asserta", "retract", "retractall") else inner))
            f["route"] = "boundvar" if b["b"] == "and" else "clause"
        else:
            arg = {}
    else:
        f["dbop"] = g.get("n")
        f["route"] = "api"
        arg = g["a"][0] if g.get("n") in ("assertz", "asserta", "retract", "retractall") and g.get("a") else g
    f["arg_shape"] = {"a": "atom", "c": "compound"}.get(arg.get("t"), "?")
    f["arg_key"] = "%s/%d" % (arg.get("n"), len(arg.get("a", [])))
    f["exc"] = r.get("detail", "").split(":")[1] if r.get("kind") == "exception" and ":" in r.get("detail", "") else ""
    return f


def run(tier, seed):
    chk = Check("C07", tier, seed)
    if tier == "quick":
        ops = menu(FACTS_QUICK, PATS_QUICK)          # 41 operations
        chk.machine_family("api-d3", [build(ops, 3, "api")], features=features)
        sub = shard(ops, 0, seed, 14)
        chk.machine_family("clause-d3", [build(sub, 3, "clause")], features=features)
        chk.machine_family("boundvar-d3", [build(sub, 3, "boundvar")], features=features)
        chk.machine_family("assert_fact-d3", [build(sub, 3, "assert_fact")], features=features)
        # several database operations inside one clause body, between two answers of an enumeration
        from . import c14
        chk.machine_family("ops-within-one-body", c14.body_scenarios(), features=features)
        chk.machine_family("after-clear", [clear_scenario(ops)], features=features)
        chk.machine_family("clear-while-suspended", clear_while_suspended(), features=features, opts_list=[{}, {"keep_name_atoms": True}])
        from .. import gen as _g
        chk.machine_family("more-than-32-facts-under-one-key", _g.scale_groups()["manyfacts"], {"budget_extra": 20000000, "must_complete": True}, features=features, max_steps=8000)
        chk.exhaustive = True
    else:
        ops = menu(FACTS_FULL, PATS_FULL)            # 51 operations
        chk.machine_family("api-d3-full", [build(ops, 3, "api")], features=features)
        q = menu(FACTS_QUICK, PATS_QUICK)
        chk.machine_family("clause-d3", [build(q, 3, "clause")], features=features)
        chk.machine_family("boundvar-d3", [build(q, 3, "boundvar")], features=features)
        chk.machine_family("assert_fact-d3", [build(q, 3, "assert_fact")], features=features)
        sub = shard(q, 0, seed, 18)
        chk.machine_family("api-d4", [build(sub, 4, "api")], features=features)
        chk.machine_family("after-clear", [clear_scenario(q)], features=features)
        chk.machine_family("clear-while-suspended", clear_while_suspended(), features=features, opts_list=[{}, {"keep_name_atoms": True}])
        from . import c14
        chk.machine_family("ops-within-one-body", c14.body_scenarios(), features=features)
        from .. import gen as _g
        chk.machine_family("more-than-32-facts-under-one-key", _g.scale_groups()["manyfacts"], {"budget_extra": 20000000, "must_complete": True}, features=features, max_steps=8000)
        chk.machine_family("more-than-1024-facts-under-one-key", _g.scale_groups()["manyfacts-big"], {"budget_extra": 200000000, "must_complete": True}, features=features, max_steps=30000)
        chk.exhaustive = True
    # random API sessions (loads, registrations, asserts through both routes, queries advanced step by
    # step and abandoned between updates, clears) over unusual term shapes; decided by the machine
    from .. import gen as _gen
    _rnd = random.Random(seed * 7919 + 7)
    _ss = [_gen.api_session(_rnd, engines=1, length=_rnd.randint(6, 14)) for _ in range(300 if tier == "quick" else 5000)]
    for _i in range(0, len(_ss), 2500):
        chk.machine_family("api-sessions-%d" % (_i // 2500), _ss[_i:_i + 2500], features=features)
    chk.assumptions = ["TLC and the TLA+ modules Terms/YP", "the projection (harness/real.py) and the Prolog renderer (harness/terms.py)",
                       "database contents are read back with match_dynamic (facts-only public API)"]
    return chk.finish()
