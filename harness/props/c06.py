"""C06 - disjunction, if-then-else and negation follow standard semantics (see c05.py for
the pipeline; here every body containing ';', '->' or '\\+' is selected, and both the fully
parenthesised and the minimally parenthesised rendering must give the predicted answers,
which ties the parser's precedence/associativity to the specification)."""
from .c05 import run_bodies


def run(tier, seed):
    return run_bodies("C06", tier, seed)
