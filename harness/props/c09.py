"""C09 - call/N, once/1, findall/3, = and \\= agree with their standard definitions.

spec/YP.tla: DoCallN, DoOnce, DoFindallStart/Collect/End, DoEq, DoNeq.  Enumerated: goal shape
(inline atom / inline compound / variable bound at run time / chain of two variables) x
extra arguments 0..2 x solution count of the goal 0..3 x builtin x position in a body
(alone, followed by a goal, as a condition, under negation) x route (compiled clause,
yp.query on the builtin directly)."""
import itertools
import random

from ..core import Check
from ..terms import A, I, V, C, NIL, lst, clause, call, and_, or_, then, not_, conj, TRUE, FAIL
from .. import gen
from .c05 import features


def goal_variants(X, Y, fresh):
    """ways to invoke g(X,Y) through call/N: returns list of (prelude goals, call term)"""
    out = []
    G, G1 = V(fresh), V(fresh + 1)
    # inline
    out.append(("inline-0", [], C("call", C("g", X, Y))))
    out.append(("inline-1", [], C("call", C("g", X), Y)))
    out.append(("inline-2", [], C("call", A("g"), X, Y)))
    # bound at run time
    out.append(("var-0", [C("=", G, C("g", X, Y))], C("call", G)))
    out.append(("var-1", [C("=", G, C("g", X))], C("call", G, Y)))
    out.append(("var-2", [C("=", G, A("g"))], C("call", G, X, Y)))
    # chain of two variables
    out.append(("chain-1", [C("=", G1, C("g", X)), C("=", G, G1)], C("call", G, Y)))
    out.append(("chain-2", [C("=", G, G1), C("=", G1, A("g"))], C("call", G, X, Y)))
    return out


def rows(n, style):
    """the goal predicate g/2 with n solutions: as facts, as rules ending in a cut-free body, or through a
    clause that ends in a cut (which yields True in the generated code)"""
    facts = [clause(C("g", I(i), A("abc"[i - 1]))) for i in range(1, n + 1)]
    if style == "facts":
        return {"g/2": facts}
    base = {"g0/2": [clause(C("g0", c["h"]["a"][0], c["h"]["a"][1])) for c in facts]}
    if style == "rule":
        base["g/2"] = [clause(C("g", V(0), V(1)), call(C("g0", V(0), V(1))))]
    elif style == "cutlast":      # the goal's own clause ends in a cut (its answer is signalled with `yield True`)
        base["g/2"] = [clause(C("g", V(0), V(1)), and_(call(C("g0", V(0), V(1))), {"b": "cut"})), clause(C("g", I(9), A("z")))]
    else:  # the first solution comes from a clause ending in a cut, the others from a second predicate
        base["g/2"] = [clause(C("g", V(0), V(1)), and_(call(C("g1", V(0), V(1))), TRUE)), ]
        base["g1/2"] = [clause(C("g1", I(1), A("a")), and_(call(C("g0", I(1), A("a"))), {"b": "cut"}))] + \
                       [clause(C("g1", V(0), V(1)), and_(call(C("g0", V(0), V(1))), call(C("\\=", V(0), I(1)))))]
    return base


def scenarios():
    scns = []
    X, Y, L = V(0), V(1), V(2)
    for n, style in [(0, "facts"), (1, "facts"), (2, "facts"), (3, "facts"), (2, "rule"), (1, "cut"), (3, "cut"), (2, "cutlast"), (0, "cutlast")]:
        script = {}
        if n or style == "cutlast":
            script.update(rows(n, style))
        script["h/0"] = [clause(A("h"))] * max(n, 0)
        queries = []
        k = 0
        def add(name, head, body):
            script[name] = [clause(head, body)]
        for vname, prelude, ct in goal_variants(X, Y, 3):
            pre = [call(p) for p in prelude]
            # call alone / followed / condition / negation
            k += 1; add("t%d/2" % k, C("t%d" % k, X, Y), conj(*(pre + [call(ct)]))); queries.append((C("t%d" % k, V(0), V(1)), 2))
            queries.append((C("t%d" % k, I(2), V(0)), 1))
            k += 1; add("t%d/2" % k, C("t%d" % k, X, Y), conj(*(pre + [call(ct), call(C("\\=", X, I(1)))]))); queries.append((C("t%d" % k, V(0), V(1)), 2))
            k += 1; add("t%d/2" % k, C("t%d" % k, X, Y), conj(*(pre + [or_(then(call(ct), call(C("=", L, A("yes")))), call(C("=", L, A("no"))))]))); queries.append((C("t%d" % k, V(0), V(1)), 2))
            k += 1; add("t%d/2" % k, C("t%d" % k, X, Y), conj(*(pre + [not_(call(ct))]))); queries.append((C("t%d" % k, V(0), V(1)), 2))
            # once through the same goal shapes: once(G) where G is g(X,Y) in that shape (0 extra args only)
            if vname.endswith("-0"):
                inner = ct["a"][0]
                k += 1; add("t%d/2" % k, C("t%d" % k, X, Y), conj(*(pre + [call(C("once", inner))]))); queries.append((C("t%d" % k, V(0), V(1)), 2))
                k += 1; add("t%d/2" % k, C("t%d" % k, X, Y), conj(*(pre + [call(C("once", inner)), call(C("\\=", X, I(1)))]))); queries.append((C("t%d" % k, V(0), V(1)), 2))
                for tmpl in (X, C("p", Y, X), A("k"), lst([X]), C("w", A("k"), C("v", X)), lst([A("a"), X]), C("r", I(1), lst([A("b")], Y))):
                    for bag in (L, lst([V(5)], V(6)), lst([I(1), I(2)]), NIL):
                        k += 1
                        add("t%d/3" % k, C("t%d" % k, X, Y, L), conj(*(pre + [call(C("findall", tmpl, inner, bag)), call(C("=", L, bag))])))
                        queries.append((C("t%d" % k, V(0), V(1), V(2)), 3))
        # a goal term built once and called several times with extra arguments (backtracking into a
        # generator between construction and call; two calls in a row; recursion over a list)
        G = V(4)
        for body in (conj(call(C("=", G, C("g", X))), call(C("sel", L)), call(C("call", G, Y))),
                     conj(call(C("=", G, A("g"))), call(C("call", G, X, Y)), call(C("call", G, L, V(5)))),
                     conj(call(C("=", G, C("g", X))), call(C("call", G, Y)), call(C("call", G, V(5))), call(C("=", L, G))),
                     conj(call(C("=", G, C("sel"))), call(C("maplist1", G, lst([X, Y]))))):
            k += 1; add("t%d/3" % k, C("t%d" % k, X, Y, L), body); queries.append((C("t%d" % k, V(0), V(1), V(2)), 3))
        script["sel/1"] = [clause(C("sel", A("s1"))), clause(C("sel", A("s2")))]
        script["maplist1/2"] = [clause(C("maplist1", V(900), NIL)),
                                clause(C("maplist1", V(0), lst([V(1)], V(2))), and_(call(C("call", V(0), V(1))), call(C("maplist1", V(0), V(2)))))]
        # successive unifications over variables that are already aliased
        for body in (conj(call(C("=", Y, X)), call(C("=", X, Y))), conj(call(C("=", Y, X)), call(C("=", X, Y)), call(C("=", X, A("a")))),
                     conj(call(C("=", Y, L)), call(C("=", L, X)), call(C("=", X, Y))), conj(call(C("=", X, Y)), call(C("=", Y, X)), call(C("\\=", X, A("b")))),
                     conj(call(C("=", X, X)), call(C("=", X, Y)), call(C("=", Y, Y)), call(C("=", L, C("f", X, Y))))):
            k += 1; add("t%d/3" % k, C("t%d" % k, X, Y, L), body); queries.append((C("t%d" % k, V(0), V(1), V(2)), 3))
        # atoms as goals: once(h), findall(x, h, L), call(h)
        for b in (call(C("once", A("h"))), call(C("findall", A("x"), A("h"), L)), call(C("call", A("h"))),
                  conj(call(C("=", V(4), A("h"))), call(C("findall", A("x"), V(4), L))),
                  conj(call(C("=", V(4), A("h"))), call(C("once", V(4)))),
                  call(C("once", A("nosuch"))), call(C("findall", X, C("nosuch", X), L)), call(C("call", A("nosuch"), X))):
            k += 1; add("t%d/3" % k, C("t%d" % k, X, Y, L), b); queries.append((C("t%d" % k, V(0), V(1), V(2)), 3))
        # = and \= as goals
        pairs = [(X, A("a")), (C("f", X, A("b")), C("f", A("a"), Y)), (X, Y), (C("f", X), C("g", X)), (lst([X], Y), lst([I(1), I(2)])),
                 (A("a"), A("a")), (A("a"), A("b")), (C("f", X), C("f", X, Y)), (I(1), I(1)), (I(1), A("1"))]
        for (l, r) in pairs:
            k += 1; add("t%d/2" % k, C("t%d" % k, X, Y), call(C("=", l, r))); queries.append((C("t%d" % k, V(0), V(1)), 2))
            k += 1; add("t%d/2" % k, C("t%d" % k, X, Y), call(C("\\=", l, r))); queries.append((C("t%d" % k, V(0), V(1)), 2))
            k += 1; add("t%d/2" % k, C("t%d" % k, X, Y), conj(call(C("\\=", l, r)), call(C("=", X, A("z"))))); queries.append((C("t%d" % k, V(0), V(1)), 2))
        # direct route: yp.query on the builtin
        direct = [(C("call", C("g", V(0), V(1))), 2), (C("call", C("g", V(0)), V(1)), 2), (C("call", A("g"), V(0), V(1)), 2),
                  (C("once", C("g", V(0), V(1))), 2), (C("findall", V(0), C("g", V(0), V(1)), V(2)), 3),
                  (C("findall", C("p", V(1)), C("g", V(0), V(1)), lst([V(2)], V(3))), 4), (C("once", A("h")), 0), (C("call", A("h")), 0),
                  (C("=", V(0), C("f", V(1))), 2), (C("\\=", V(0), A("a")), 1), (C("\\=", A("b"), A("a")), 0)]
        queries.extend(direct)
        steps = [[{"op": "load", "e": 1, "script": "P", "ow": True}]]
        for i, (g, qnv) in enumerate(queries):
            steps.append([{"op": "solve", "e": 1, "r": i + 1, "goal": g, "qnv": qnv, "k": 0}])
        # one query per scenario keeps a failure from hiding the others; the scenario carries only
        # the clause its query needs (plus the goal predicates)
        base = {k: v for k, v in script.items() if not (k[0] == "t" and k[1].isdigit())}
        queries.extend([(C("=", V(0), V(0)), 1), (C("call", C("=", V(0)), V(1)), 2)])
        for i, (g, qnv) in enumerate(queries):
            sc = dict(base)
            key = "%s/%d" % (g["n"], len(g.get("a", [])))
            if key in script:
                sc[key] = script[key]
            scns.append({"scripts": {"P": sc}, "steps": [steps[0], [{"op": "solve", "e": 1, "r": 1, "goal": g, "qnv": qnv, "k": 0}]]})
    return scns


def identity_and_chain_scenarios():
    """(a) the builtins compare terms, not objects: the same goals before and after clear() (which renews the
    atom table but not the engine's empty-list object), with atoms built by the consumer and atoms of loaded code;
    (b) a predicate spread over two scripts loaded without overwrite whose earlier definition ends in a cut that
    is reached, called directly, through call/N, findall and once"""
    from ..terms import A, I, V, C, NIL, lst, clause, call, and_, conj, CUT
    X, Y = V(0), V(1)
    script = {"nil/1": [clause(C("nil", NIL))], "qnil/1": [clause(C("qnil", A("[]")))], "e/2": [clause(C("e", X, Y), call(C("=", X, Y)))],
              "ne/2": [clause(C("ne", X, Y), call(C("\\=", X, Y)))], "a/1": [clause(C("a", A("x")))],
              "t/1": [clause(C("t", I(1)), conj(call(C("nil", X)), call(C("qnil", X)))), clause(C("t", I(2)), conj(call(C("nil", X)), call(C("qnil", Y)), call(C("\\=", X, Y)))),
                      clause(C("t", I(3)), call(C("\\=", NIL, A("[]")))), clause(C("t", I(4)), call(C("findall", X, C("a", A("none")), NIL))),
                      clause(C("t", I(5)), conj(call(C("findall", X, C("a", A("none")), Y)), call(C("\\=", Y, A("[]")))))]}
    probes = [(C("t", V(0)), 1), (C("\\=", NIL, NIL), 0), (C("=", NIL, NIL), 0), (C("ne", NIL, A("[]")), 0), (C("e", lst([A("x")]), lst([V(0)])), 1),
              (C("\\=", A("x"), A("x")), 0), (C("a", A("x")), 0), (C("ne", A("x"), A("x")), 0), (C("findall", V(0), C("a", V(0)), lst([A("x")])), 1)]
    steps = [[{"op": "load", "e": 1, "script": "P", "ow": True}]]
    r = 0
    for rounds in range(3):
        for g, q in probes:
            r += 1
            steps.append([{"op": "solve", "e": 1, "r": r, "goal": g, "qnv": q, "k": 0}])
        steps.append([{"op": "clear", "e": 1}])
        steps.append([{"op": "load", "e": 1, "script": "P", "ow": True}])
    scns = [{"scripts": {"P": script}, "steps": steps, "keys": []}]
    s1 = {"colour/1": [clause(C("colour", A("red")), CUT), clause(C("colour", A("unreached")))], "sh/1": [clause(C("sh", X), call(C("colour", X)))]}
    s2 = {"colour/1": [clause(C("colour", A("green"))), clause(C("colour", A("blue")))]}
    s3 = {"colour/1": [clause(C("colour", A("last")), CUT)]}
    goals = [(C("colour", V(0)), 1), (C("call", A("colour"), V(0)), 1), (C("findall", V(0), C("colour", V(0)), V(1)), 2), (C("once", C("colour", V(0))), 1), (C("sh", V(0)), 1),
             (C("findall", V(0), C("call", A("colour"), V(0)), V(1)), 2), (C("call", C("call", A("colour")), V(0)), 1)]
    steps = [[{"op": "load", "e": 1, "script": "S1", "ow": True}], [{"op": "load", "e": 1, "script": "S2", "ow": False}]]
    r = 0
    for g, q in goals:
        r += 1
        steps.append([{"op": "solve", "e": 1, "r": r, "goal": g, "qnv": q, "k": 0}])
    steps.append([{"op": "load", "e": 1, "script": "S3", "ow": False}])
    for g, q in goals:
        r += 1
        steps.append([{"op": "solve", "e": 1, "r": r, "goal": g, "qnv": q, "k": 0}])
    scns.append({"scripts": {"S1": s1, "S2": s2, "S3": s3}, "steps": steps, "keys": []})
    return scns


def repeated_goal_term_scenarios():
    """one goal term reached by call/N several times - on backtracking into the goals before it, in a recursion that
    passes the goal on, twice in one conjunction - as an inline compound, as a head argument of the calling clause,
    through a variable and through a chain: call/N leaves the goal term it is given as it found it"""
    X, Y, G, N, Xs, H = V(0), V(1), V(2), V(3), V(4), V(5)
    script = {
        "num/1": [clause(C("num", I(i))) for i in (1, 2, 3)],
        "foo/3": [clause(C("foo", A("a"), I(i), A(w))) for i, w in ((1, "one"), (2, "two"), (3, "three"))] + [clause(C("foo", A("b"), I(2), A("deux")))],
        "foo/2": [clause(C("foo", I(1), A("uno")))],
        "apply/2": [clause(C("apply", G, X), conj(call(C("num", N)), call(C("call", G, N, X))))],
        "apply3/3": [clause(C("apply3", G, Y, X), conj(call(C("num", N)), call(C("call", G, Y, N, X))))],
        "each/2": [clause(C("each", G, NIL)), clause(C("each", G, lst([X], Xs)), conj(call(C("call", G, X)), call(C("each", G, Xs))))],
        "t1/1": [clause(C("t1", X), call(C("apply", C("foo", A("a")), X)))],
        "t2/1": [clause(C("t2", X), conj(call(C("=", G, C("foo", A("a")))), call(C("num", N)), call(C("call", G, N, X))))],
        "t3/1": [clause(C("t3", X), call(C("apply3", A("foo"), A("a"), X)))],
        "t4/2": [clause(C("t4", X, Y), conj(call(C("=", G, C("foo", A("a")))), call(C("apply", G, X)), call(C("apply", G, Y))))],
        "t5/1": [clause(C("t5", X), conj(call(C("each", C("foo", A("a"), I(1)), lst([A("one"), A("one")]))), call(C("=", X, A("yes")))))],
        "t6/1": [clause(C("t6", X), conj(call(C("=", G, C("foo", A("a")))), call(C("call", G, I(1), X)), call(C("call", G, I(1), Y)), call(C("=", X, Y))))],
        "t7/1": [clause(C("t7", X), conj(call(C("num", N)), call(C("call", C("foo", A("a")), N, X))))],
        "t8/1": [clause(C("t8", X), conj(call(C("=", H, G)), call(C("=", G, C("foo", Y))), call(C("num", N)), call(C("call", H, N, X))))],
        "t9/1": [clause(C("t9", X), call(C("findall", Y, C("apply", C("foo", A("a")), Y), X)))],
    }
    goals = [(C("t%d" % i, V(0)), 1) for i in (1, 2, 3, 5, 6, 7, 8, 9)] + [(C("t4", V(0), V(1)), 2), (C("apply", C("foo", A("b")), V(0)), 1),
                                                                          (C("apply", C("foo", V(1)), V(0)), 2), (C("each", C("foo", A("a"), I(2)), lst([V(0), V(1)])), 2)]
    steps = [[{"op": "load", "e": 1, "script": "P", "ow": True}]]
    for r, (g, q) in enumerate(goals):
        steps.append([{"op": "solve", "e": 1, "r": r + 1, "goal": g, "qnv": q, "k": 0}])
    return [{"scripts": {"P": script}, "steps": steps, "keys": []}]


def run(tier, seed):
    chk = Check("C09", tier, seed)
    rnd = random.Random(seed)
    scns = scenarios()
    chk.machine_family("builtins-enumerated", scns, features=features)
    chk.machine_family("identity-after-clear-and-chained-definitions-with-cuts", identity_and_chain_scenarios(), features=features, opts_list=[{"must_complete": True}, {"must_complete": True, "mode": "qnil"}])
    chk.machine_family("one-goal-term-called-repeatedly", repeated_goal_term_scenarios(), features=features, opts_list=[{"must_complete": True}])
    n = 800 if tier == "quick" else 10000
    rs = [gen.random_scenario(rnd, {"meta", "ctl", "dyn", "rich"}, nclauses=3, depth=rnd.choice([2, 3])) for _ in range(n)]
    for i in range(0, n, 4000):
        chk.machine_family("random-meta-%d" % (i // 4000), rs[i:i + 4000], features=features)
    SG = gen.scale_groups()
    chk.machine_family("scale-call-N-and-deep-findall", SG["calln"] + SG["findall"], {"budget_extra": 20000000, "must_complete": True}, features=features, max_steps=30000)
    need = ["DoCallN", "DoOnce", "DoFindallStart", "DoFindallCollect", "DoFindallEnd", "DoFindallEndFail", "DoEq", "DoNeq", "DoCommit"]
    missing = [e for e in need if not chk.events.get(e)]
    if missing:
        chk.machinery_errors.append("vacuity: spec steps never taken: %s" % missing)
    chk.exhaustive = False
    chk.assumptions = ["findall instances that are not ground keep the caller's variables (as implemented; the property does not settle aliasing between instances)",
                       "unbound or non-callable goals are unspecified and cut"]
    return chk.finish()
