"""C17 - evaluate_bounded returns a prefix of the answers and restores the interpreter.

Direction code -> spec.  The machine spec/YP.tla predicts the answer sequence of the unbounded
search (reference).  The real evaluate_bounded is run for a sweep of recursion limits (so that the
interpreter's limit strikes at every possible place of the search) x projection functions raising at
the k-th answer; each call is recorded as a trace (begin / one event per projection call / end with
the limit afterwards, the number of bound variables in the registry, what escaped, the result) and
TLC validates every trace against spec/EvalBounded.tla, whose silent EB_Overflow step may end the
search anywhere - except where the search was measured to stay below the limit (shallow), in which
case the complete answer sequence is required.  spec/EvalBounded.tla is also model-checked on its
own (LimitRestored, BoundedIsPrefix, ReturnsEverythingWhenShallow)."""
import json
import os
import random
import re
import sys

from ..core import Check
from .. import tlc, replay
from ..terms import A, I, V, C, NIL, lst, clause, call, and_, or_, then, not_, conj, CUT


def s(n):
    t = A("z")
    for _ in range(n):
        t = C("s", t)
    return t


def kk(n, inner):
    t = inner
    for _ in range(n):
        t = C("k", t)
    return t


PQ_FACTS = [C("pq", C("h", kk(30, A("a")), V(0)), A("one")), C("pq", V(0), A("two")), C("pq", C("h", V(0), V(1)), A("three"))]


def program():
    X, Y, N, T = V(0), V(1), V(2), V(3)
    return {
        "flat/1": [clause(C("flat", I(i))) for i in (1, 2, 3)],
        "len/2": [clause(C("len", NIL, A("z"))), clause(C("len", lst([V(900)], V(0)), C("s", V(1))), call(C("len", V(0), V(1))))],
        "nat/1": [clause(C("nat", A("z"))), clause(C("nat", C("s", V(0))), call(C("nat", V(0))))],
        "loop/1": [clause(C("loop", X), call(C("loop", X)))],
        "lrec/1": [clause(C("lrec", X), call(C("lrec", X))), clause(C("lrec", A("a")))],
        "down/1": [clause(C("down", A("z"))), clause(C("down", C("s", V(0))), call(C("down", V(0))))],
        "app/3": [clause(C("app", NIL, V(0), V(0))), clause(C("app", lst([V(0)], V(1)), V(2), lst([V(0)], V(3))), call(C("app", V(1), V(2), V(3))))],
        "pair/2": [clause(C("pair", X, Y), and_(call(C("flat", X)), call(C("flat", Y))))],
        "ite/1": [clause(C("ite", X), or_(then(and_(call(C("flat", X)), call(C("\\=", X, I(1)))), call(C("=", Y, X))), call(C("=", X, A("none")))))],
        "negloop/1": [clause(C("negloop", X), and_(call(C("flat", X)), not_(call(C("loop", X)))))],
        "fa/1": [clause(C("fa", X), call(C("findall", Y, C("down", Y), X)))],
        "mix/2": [clause(C("mix", X, Y), conj(call(C("flat", X)), call(C("down", Y))))],
        "wide/2": [clause(C("wide", A("done"), V(0)), call(C("=", V(0), V(0)))), clause(C("wide", A("again"), V(900)))],
        "go/1": [clause(C("go", X), and_(call(A("c1")), call(C("first", X)))), clause(C("go", A("last")))],
        "c1/0": [clause(A("c1"), call(A("c2")))], "c2/0": [clause(A("c2"), call(A("c3")))], "c3/0": [clause(A("c3"), call(A("c4")))],
        "c4/0": [clause(A("c4"), call(A("c5")))], "c5/0": [clause(A("c5"), call(A("c6")))], "c6/0": [clause(A("c6"), call(A("ok")))],
    }


def queries(tier):
    L = [(C("flat", V(0)), 1, 0), (C("pair", V(0), V(1)), 2, 0), (C("ite", V(0)), 1, 0), (C("nat", V(0)), 1, 45),
         (C("loop", V(0)), 1, 0), (C("lrec", V(0)), 1, 0), (C("negloop", V(0)), 1, 0),
         (C("app", V(0), V(1), lst([A("a"), A("b"), A("c")])), 2, 0), (C("mix", V(0), s(6)), 1, 0)]
    for n in ((5, 12) if tier == "quick" else (5, 12, 25, 40)):
        L.append((C("len", lst([A("x")] * n), V(0)), 1, 0))
        L.append((C("down", s(n)), 0, 0))
    L.append((C("fa", V(0)), 1, 3))
    # a dynamic-fact-like structure unification: an early argument binds a variable, a later one is deep
    L.append((C("wide", V(0), s(40)), 1, 0))
    # against a DYNAMIC fact item(done, _) (asserted before the query): facts are matched by unify_arrays,
    # argument by argument, and the second argument needs depth while the first has already bound X
    L.append((C("item", V(0), s(60)), 1, 0))
    # the deepest point of the search is a lookup of dynamic facts (ok, first/1 are asserted, not compiled)
    L.append((C("go", V(0)), 1, 0))
    # dynamic facts pq(h(k^30(a),_),one), pq(_,two), pq(h(_,_),three): the first answer needs a deep nested unification
    # of the arguments, the second none - an overflow in the first must end the call, not skip to the second
    L.append((C("pq", C("h", V(0), kk(30, V(0))), V(1)), 2, 0))
    return L


def record_runs(scn, refs, tier, seed):
    """run the real evaluate_bounded; returns list of trace dicts"""
    from .. import real
    engine = real.engine
    traces = []
    script = real.T.render_script(scn["scripts"]["P"])
    code = real.compile_text(script)
    step = 3 if tier == "quick" else 1
    rnd = random.Random(seed)

    class ProjBoom(Exception):
        pass

    class ProjBase(BaseException):
        pass
    # what the consumer's code raises: an ordinary exception, or one of those that are no `Exception`
    # (Ctrl-C while an answer is processed, sys.exit() in the projection, a generator being closed)
    KINDS = [ProjBoom, KeyboardInterrupt, SystemExit, GeneratorExit, ProjBase]
    # ... and the exceptions evaluate_bounded swallows by design (they are how a recursion overflow shows): the
    # call returns what it has collected, the query is over and its variables are unbound

    class ProjRuntime(RuntimeError):
        pass
    SWALLOWED = [RuntimeError, NotImplementedError, StopIteration, ProjRuntime]

    inner_traces = []

    def one(goal, qnv, L, raise_at, probe=False, nest=False):
        yp = real.YP()
        yp.load_script_from_string(code)
        if goal["n"] == "item":
            yp.assert_fact(yp.atom("item"), [yp.atom("done"), yp.variable()])
        if goal["n"] == "go":
            yp.assert_fact(yp.atom("ok"), [])
            yp.assert_fact(yp.atom("first"), [yp.atom("one")])
        if goal["n"] == "pq":
            for f in PQ_FACTS:
                e2 = {}
                yp.assert_fact(yp.atom("pq"), [real.build(yp, a, e2) for a in f["a"]])
        env = {}
        vs = [real.build(yp, {"t": "v", "id": i}, env) for i in range(qnv)]
        args = [real.build(yp, a, env) for a in goal.get("a", [])]
        q = yp.query(goal["n"], args)
        events = []
        count = [0]

        def proj(x):
            count[0] += 1
            if nest:
                # the projection runs a bounded sub-query of its own on the same engine
                iv = yp.variable()
                iq = yp.query("flat", [iv])
                iev = [{"ev": "begin", "limit": L + 40, "before": sys.getrecursionlimit()}]

                def iproj(_):
                    a = real.project_tuple([iv])
                    iev.append({"ev": "answer", "ans": a, "raises": False})
                    return a
                ires = yp.evaluate_bounded(iq, iproj, recursion_limit=L + 40)
                iev.append({"ev": "end", "after": sys.getrecursionlimit(), "bound": 0, "escaped": "none", "result": ires})
                inner_traces.append(iev)
            ans = real.project_tuple(vs)
            raises = (count[0] == raise_at)
            swallowed = raises and (L + raise_at) % 3 == 0
            events.append({"ev": "answer", "ans": ans, "raises": raises, "swallowed": swallowed})
            if swallowed:
                raise SWALLOWED[(L // 3 + raise_at) % len(SWALLOWED)]("raised by the projection")
            if raises:
                raise KINDS[(L + raise_at) % len(KINDS)]()
            return ans
        before = sys.getrecursionlimit()
        events.insert(0, {"ev": "begin", "limit": L, "before": before})
        escaped = "none"
        result = []
        maxdepth = [0]
        if probe:
            depth = [0]

            def prof(frame, event, arg):
                if event == "call":
                    depth[0] += 1
                    if depth[0] > maxdepth[0]:
                        maxdepth[0] = depth[0]
                elif event == "return":
                    depth[0] -= 1
            sys.setprofile(prof)
        try:
            result = yp.evaluate_bounded(q, proj, recursion_limit=L)
        except tuple(KINDS):
            escaped = "proj"
        except RecursionError:
            escaped = "RecursionError"
        except Exception as e:
            escaped = type(e).__name__
        finally:
            if probe:
                sys.setprofile(None)
        after = sys.getrecursionlimit()
        sys.setrecursionlimit(before)      # keep the sweep going even if the code failed to restore
        bound = len(real.bound_registry())
        if not isinstance(result, list):
            result = [{"not_a_list": repr(type(result))}]
        events.append({"ev": "end", "after": after, "bound": bound, "escaped": escaped, "result": result})
        del q
        return events, maxdepth[0]

    import inspect
    d0 = len(inspect.stack()) + 3
    for (goal, qnv, k), ref in zip(scn["_queries"], refs):
        complete = ref["end"] == "stop"
        answers = ref["answers"]
        # measure the depth the search needs (only meaningful for finite searches)
        need = None
        if complete:
            old = sys.getrecursionlimit()
            ev, md = one(goal, qnv, 20000, 0, probe=True)
            need = md
        # infinite searches: keep the limit low enough that the result stays within the known prefix
        hi = d0 + (need + 40 if need is not None else 60)
        # structure unifications (several argument pairs, an early one binding a variable): every limit
        limits = list(range(d0 + 5, hi, 1 if goal["n"] in ("wide", "app", "item", "go", "pq") else step))
        rps = [0, 1, 2, max(len(answers), 1)]
        for L in limits:
            for ra in (rps if tier == "thorough" else [rps[(L // step) % len(rps)], 0]):
                events, _ = one(goal, qnv, L, ra)
                shallow = bool(complete and need is not None and need + 30 < L - d0)
                traces.append({"ref": answers, "complete": complete, "shallow": shallow, "events": events,
                               "goal": real.T.render_term(goal), "limit": L, "raise_at": ra})
            if (L // step) % 4 == 0 and answers:
                # nested use: the projection itself calls evaluate_bounded
                del inner_traces[:]
                events, _ = one(goal, qnv, L, 0, nest=True)
                traces.append({"ref": answers, "complete": complete, "shallow": False, "events": events,
                               "goal": real.T.render_term(goal) + " [nested]", "limit": L, "raise_at": 0})
                for iev in inner_traces[:2]:
                    traces.append({"ref": refs[0]["answers"], "complete": True, "shallow": False, "events": iev,
                                   "goal": "flat(V0) [inner]", "limit": L + 40, "raise_at": 0})
    return traces


def run(tier, seed):
    chk = Check("C17", tier, seed)
    family(chk, tier, seed)
    chk.assumptions = ["'stays within the limit' is decided by measurement: maximum Python call depth of the unbounded search (sys.setprofile) + 30 frames below the swept limit",
                       "one thread; the caller's own depth is below every swept limit"]
    return chk.finish()


def family(chk, tier, seed, only=None):
    """only: restrict to the first `only` queries (used by C03 for the projection-raise points)"""
    # 1. the model on its own
    res = tlc.run("EvalBounded", "EvalBounded.cfg", tag="eb-model-%d" % os.getpid())
    chk.add_tlc(res, ["LimitRestored", "BoundedIsPrefix", "NoOverflowWhenShallow", "ReturnsEverythingWhenShallow"])
    # 2. reference answer sequences from the machine
    qs = queries(tier)
    if only:
        qs = [qs[i] for i in only if -len(qs) <= i < len(qs)] if isinstance(only, (list, tuple)) else qs[:only]
    steps = [[{"op": "load", "e": 1, "script": "P", "ow": True}]]
    for i, (g, qnv, k) in enumerate(qs):
        steps.append([{"op": "solve", "e": 1, "r": i + 1, "goal": g, "qnv": qnv, "k": k}])
    scns = []
    for i, (g, qnv, k) in enumerate(qs):
        pre = [[{"op": "assert", "e": 1, "term": C("item", A("done"), V(0)), "atEnd": True, "r": 0}]] if g["n"] == "item" else []
        if g["n"] == "go":
            pre = [[{"op": "assert", "e": 1, "term": A("ok"), "atEnd": True, "r": 0}], [{"op": "assert", "e": 1, "term": C("first", A("one")), "atEnd": True, "r": 0}]]
        if g["n"] == "pq":
            pre = [[{"op": "assert", "e": 1, "term": f, "atEnd": True, "r": 0}] for f in PQ_FACTS]
        scns.append({"scripts": {"P": program()}, "steps": [steps[0]] + pre + [[{"op": "solve", "e": 1, "r": 1, "goal": g, "qnv": qnv, "k": k}]], "keys": []})
    recs, results = chk.machine_family("reference-searches", scns, max_steps=None)
    by_id = {r["id"]: r for r in recs}
    refs = []
    for i in range(len(qs)):
        obs = by_id[i + 1]["hist"][-1]["obs"]
        refs.append({"answers": obs.get("answers", []), "end": obs.get("end", obs["k"])})
    scn = {"scripts": {"P": program()}, "_queries": qs}
    # 3. record the real evaluate_bounded (in this process: the recursion limit is process-wide)
    import threading
    out = {}

    def body():
        sys.setrecursionlimit(1000)
        out["traces"] = record_runs(scn, refs, tier, seed)
    threading.stack_size(512 * 1024 * 1024)
    t = threading.Thread(target=body)
    t.start(); t.join()
    traces = out.get("traces")
    if traces is None:
        chk.machinery_errors.append("recording evaluate_bounded runs failed")
        return
    # 3b. far more answers than any small case has (a cap on the number of results would show here): a table of
    # N facts enumerated through evaluate_bounded; the reference is the closed form "the facts in assertion
    # order", which is what the machine computes (checked against the machine for a small N)
    if not only:
        N = 70000
        small = {"scripts": {}, "keys": [], "steps": [[{"op": "assertn", "e": 1, "name": "row", "lo": 0, "n": 50, "atEnd": True}],
                                                      [{"op": "solve", "e": 1, "r": 1, "goal": C("row", V(0)), "qnv": 1, "k": 0}]]}
        srecs, _ = chk.machine_family("table-reference-closed-form", [small], max_steps=2000)
        got = srecs[0]["hist"][-1]["obs"].get("answers") if srecs else None
        if got != [[{"t": "i", "n": str(i)}] for i in range(50)]:
            chk.machinery_errors.append("closed-form reference for a table of facts differs from the machine")
        out2 = {}

        def body2():
            from .. import real
            sys.setrecursionlimit(1000)
            yp = real.YP()
            for i in range(N):
                yp.assert_fact(yp.atom("row"), [i])
            for raise_at in (0, N - 3):
                v = yp.variable()
                q = yp.query("row", [v])
                events = [{"ev": "begin", "limit": 400, "before": sys.getrecursionlimit()}]
                cnt = [0]

                class Boom(Exception):
                    pass

                def proj(_):
                    cnt[0] += 1
                    a = real.project_tuple([v])
                    events.append({"ev": "answer", "ans": a, "raises": cnt[0] == raise_at})
                    if cnt[0] == raise_at:
                        raise Boom()
                    return a
                escaped, result = "none", []
                try:
                    result = yp.evaluate_bounded(q, proj, recursion_limit=400)
                except Boom:
                    escaped = "proj"
                events.append({"ev": "end", "after": sys.getrecursionlimit(), "bound": len(real.bound_registry()), "escaped": escaped, "result": result})
                sys.setrecursionlimit(1000)
                out2.setdefault("traces", []).append({"ref": [[{"t": "i", "n": str(i)}] for i in range(N)], "complete": True, "shallow": True, "events": events,
                                                      "goal": "row(V0) over %d facts" % N, "limit": 400, "raise_at": raise_at})
        t2 = threading.Thread(target=body2)
        t2.start(); t2.join()
        if "traces" not in out2 or len(out2["traces"]) != 2:
            chk.machinery_errors.append("recording the large table failed")
        else:
            traces.extend(out2["traces"])
    # 4. TLC validates every trace
    fn = os.path.join(tlc.WORK, "C17-traces-%d.json" % os.getpid())
    with open(fn, "w") as f:
        json.dump([{k: t[k] for k in ("ref", "complete", "shallow", "events")} for t in traces], f)
    try:
        res = tlc.run("EvalBounded", "EvalBoundedTrace.cfg", env={"TRACE_FILE": fn}, tag="eb-trace-%d" % os.getpid(), keep_output=True)
    finally:
        os.unlink(fn)
    chk.add_tlc(res, ["TraceSpec acceptance", "LimitRestored", "BoundedIsPrefix"])
    accepted = set()
    stuck = {}
    for line in res.lines:
        m = re.match(r'<<"ACCEPT", (\d+)>>', line)
        if m:
            accepted.add(int(m.group(1)))
        m = re.match(r'<<"STUCK", (\d+), (\d+), "(\w+)">>', line)
        if m:
            tid, pos = int(m.group(1)), int(m.group(2))
            if tid not in stuck or pos > stuck[tid][0]:
                stuck[tid] = (pos, m.group(3))
    n_overflow = 0
    for i, t in enumerate(traces):
        chk.evaluations += 1
        end = t["events"][-1]
        if len(end["result"]) < len(t["ref"]) or not t["complete"]:
            n_overflow += 1
        if end["result"]:
            chk.nontrivial.add((t["goal"], t["limit"], t["raise_at"]))
        if (i + 1) in accepted:
            chk.validated_traces += 1
            continue
        pos, evname = stuck.get(i + 1, (0, "?"))
        ev = t["events"][pos - 1] if pos else {}
        why = "trace rejected at event %d (%s)" % (pos, evname)
        if evname == "end":
            if ev.get("after") != t["events"][0]["before"]:
                why += ": recursion limit not restored (%s -> %s)" % (t["events"][0]["before"], ev.get("after"))
            elif ev.get("bound"):
                why += ": %d variables still bound" % ev["bound"]
            elif ev.get("escaped") not in ("none", "proj"):
                why += ": %s escaped" % ev["escaped"]
            else:
                why += ": result is not an allowed prefix (shallow=%s, %d of %d answers)" % (t["shallow"], len(ev.get("result", [])), len(t["ref"]))
        chk.violation({"kind": "trace", "detail": why, "family": "evaluate_bounded-sweep", "scenario": {"goal": t["goal"], "limit": t["limit"], "raise_at": t["raise_at"]},
                       "record": t, "features": {"op": "evaluate_bounded", "goal_name": t["goal"].split("(")[0], "event": evname}})
    chk.add_sample({"goal": traces[0]["goal"], "limit": traces[0]["limit"], "events": traces[0]["events"][:4]})
    chk.extra["evaluate_bounded_runs"] = len(traces)
    chk.extra["runs_cut_short_by_the_limit_or_infinite"] = n_overflow
    if n_overflow == 0:
        chk.machinery_errors.append("vacuity: no run was cut short by the recursion limit")
