"""C05 - cut commits the clause and nothing else.

Pipeline: TLC enumerates all clause bodies up to a node bound over {leaf, true, fail, !,
',', ';', '->', '\\+'} (cuts only in transparent positions) x leaf solution counts on
spec/Codegen.tla, checking CodegenRefinesControl (the model of the code generation scheme
refines the denotational semantics of spec/Control.tla) and printing each instance with its
reference answers; the machine spec/YP.tla runs each instance (invariant AnswersAreSLD:
machine = denotational semantics); every behaviour is replayed on the real compiler +
engine in two renderings (fully parenthesised, minimal parentheses)."""
import random

from ..core import Check
from .. import bodies

MODES = [{"mode": "full"}, {"mode": "minimal"}]


def features(scn, rec, r):
    d = r.get("detail", "")
    return {"exc": d.split(":")[1] if r.get("kind") == "exception" and ":" in d else "",
            "where": d.split(":")[2] if r.get("kind") == "exception" and d.count(":") >= 2 else "",
            "phase": d.split(":")[0] if r.get("kind") == "exception" else ""}


def select(prop, rec):
    ks = set()
    for c in rec["clauses"][:-1]:
        bodies.kinds(c, ks)
    if prop == "C05":
        return "cut" in ks
    return bool(ks & {"or", "then", "not"})


def cut_scope_scenarios():
    """a cut belongs to one predicate (name AND arity) and to the clauses of one definition: predicates of the same
    name with other arities after a catch-all clause that cuts first; predicates whose clauses all end in a cut,
    called from other clauses, with facts asserted for them through the API, natives registered and further
    definitions loaded under the same name/arity afterwards"""
    from ..terms import A, I, V, C, lst, clause, call, and_, conj, TRUE, FAIL, CUT
    X, Y, M = V(0), V(1), V(2)
    scns = []
    item = [clause(C("item", A("i1"))), clause(C("item", A("i2"))), clause(C("item", A("i3")))]
    for first in ([clause(C("pick", X), conj(CUT, call(C("item", X))))], [clause(C("pick", V(900)), CUT)], [clause(C("pick", X), conj(call(C("item", X)), CUT))]):
        script = {"item/1": item, "pick/1": first + [clause(C("pick", A("never")))],
                  "pick/2": [clause(C("pick", X, A("first")), conj(call(C("item", X)), CUT)), clause(C("pick", X, A("all")), call(C("item", X)))],
                  "pick/0": [clause(A("pick"))],
                  "top/2": [clause(C("top", X, M), call(C("pick", X, M)))]}
        steps = [[{"op": "load", "e": 1, "script": "P", "ow": True}]]
        for j, (g, q) in enumerate([(C("pick", V(0)), 1), (C("pick", V(0), A("first")), 1), (C("pick", V(0), A("all")), 1), (C("pick", V(0), V(1)), 2), (A("pick"), 0), (C("top", V(0), V(1)), 2)]):
            steps.append([{"op": "solve", "e": 1, "r": j + 1, "goal": g, "qnv": q, "k": 0}])
        scns.append({"scripts": {"P": script}, "steps": steps, "keys": []})
    cand = [clause(C("cand", A("c1"))), clause(C("cand", A("c2")))]
    script = {"cand/1": cand, "best/1": [clause(C("best", X), conj(call(C("cand", X)), CUT)), clause(C("best", A("fallback")), CUT)],
              "report/1": [clause(C("report", X), call(C("best", X)))],
              "both/2": [clause(C("both", X, Y), conj(call(C("best", X)), call(C("best", Y))))],
              "firstof/1": [clause(C("firstof", X), conj(call(C("best", X)), CUT))]}
    more = {"best/1": [clause(C("best", A("later1"))), clause(C("best", A("later2")), CUT), clause(C("best", A("never")))]}
    rows = [{"args": [A("py1")], "nv": 0}, {"args": [A("py2")], "nv": 0}]
    probes = [(C("best", V(0)), 1), (C("report", V(0)), 1), (C("both", V(0), V(1)), 2), (C("firstof", V(0)), 1), (C("findall", V(0), C("report", V(0)), V(1)), 2)]
    for pre in ([], [{"op": "assert", "e": 1, "term": C("best", A("manual1")), "atEnd": True, "r": 0}, {"op": "assert", "e": 1, "term": C("best", A("manual2")), "atEnd": True, "r": 0}]):
        for post in ([], [{"op": "load", "e": 1, "script": "M", "ow": False}],
                     [{"op": "register", "e": 1, "name": "best", "arity": 1, "style": "explicit", "fid": "best", "rows": rows, "raise": {"call": 0, "row": 0}, "yields": False}],
                     [{"op": "register", "e": 1, "name": "best", "arity": 1, "style": "explicit", "fid": "best", "rows": rows, "raise": {"call": 0, "row": 0}, "yields": True},
                      {"op": "load", "e": 1, "script": "M", "ow": False}]):
            steps = [[{"op": "load", "e": 1, "script": "P", "ow": True}]] + [[o] for o in pre]
            r = 0
            for g, q in probes:
                r += 1
                steps.append([{"op": "solve", "e": 1, "r": r, "goal": g, "qnv": q, "k": 0}])
            steps += [[o] for o in post]
            for g, q in probes:
                r += 1
                steps.append([{"op": "solve", "e": 1, "r": r, "goal": g, "qnv": q, "k": 0}])
            scns.append({"scripts": {"P": script, "M": more}, "steps": steps, "keys": [{"n": "best", "k": 1}]})
    return scns


def head_cut_scenarios():
    """cuts combined with head unification: clauses whose heads repeat variables, contain constants or
    structures, with a neck cut / cut-fail / cut after a goal, followed by further clauses"""
    import itertools
    from ..terms import A, I, V, C, lst, clause, call, and_, conj, TRUE, FAIL, CUT
    X, Y = V(0), V(1)
    heads = [lambda: (X, X), lambda: (X, Y), lambda: (A("a"), X), lambda: (C("f", X), X), lambda: (X, C("f", X)), lambda: (lst([X], Y), X), lambda: (V(900), V(901))]
    bodies = [CUT, conj(CUT, FAIL), conj(call(C("q", X)), CUT), conj(CUT, call(C("q", Y))), conj(call(C("=", X, A("a"))), CUT), TRUE]
    scns = []
    for (h1, b1), h2 in itertools.product(itertools.product(heads, bodies), heads[:5]):
        a1, a2 = h1(), h2()
        cls = [clause(C("d", *a1), b1), clause(C("d", *a2), call(C("=", V(5), A("second")))), clause(C("d", V(900), V(901)))]
        script = {"d/2": cls, "q/1": [clause(C("q", A("a"))), clause(C("q", A("b")))],
                  "outer/2": [clause(C("outer", X, Y), conj(call(C("q", X)), call(C("d", X, Y))))]}
        steps = [[{"op": "load", "e": 1, "script": "P", "ow": True}]]
        qs = [([V(0), V(1)], 2), ([I(1), I(2)], 0), ([A("a"), A("a")], 0), ([A("a"), V(0)], 1), ([C("f", A("b")), A("b")], 0), ([V(0), V(0)], 1), ([lst([A("a")]), V(0)], 1)]
        for i, (qa, qnv) in enumerate(qs):
            steps.append([{"op": "solve", "e": 1, "r": i + 1, "goal": C("d", *qa), "qnv": qnv, "k": 0}])
        steps.append([{"op": "solve", "e": 1, "r": 50, "goal": C("outer", V(0), V(1)), "qnv": 2, "k": 0}])
        scns.append({"scripts": {"P": script}, "steps": steps})
    return scns


def identity_shapes(rnd, n):
    """contexts in which a tempting algebraic simplification changes the meaning: A ; fail, fail ; A,
    A , true, (C -> T ; fail) ; E, not not A, ((A ; B) ; C), ((A , B) , C) ... around small bodies with
    generators and tests on shared variables"""
    from ..terms import A, I, V, C, clause, call, and_, or_, then, not_, conj, TRUE, FAIL, CUT
    X, Y, R = V(0), V(1), V(2)

    def atom_goal():
        r = rnd.random()
        v = X if rnd.random() < 0.6 else Y
        if r < 0.35:
            return call(C("g", v))
        if r < 0.7:
            return call(C(rnd.choice(["t1", "t12", "t23", "t3"]), v))
        if r < 0.8:
            return call(C("=", R, A("m%d" % rnd.randint(1, 9))))
        return rnd.choice([TRUE, FAIL, call(C("none", v))])

    def small():
        r = rnd.random()
        if r < 0.3:
            return atom_goal()
        if r < 0.5:
            return and_(atom_goal(), atom_goal())
        if r < 0.65:
            return or_(atom_goal(), atom_goal())
        if r < 0.85:
            return then(atom_goal(), atom_goal())
        return not_(atom_goal())
    ctxs = [lambda a, b, c: or_(or_(a, FAIL), b), lambda a, b, c: or_(or_(then(a, b), FAIL), c), lambda a, b, c: or_(FAIL, or_(then(a, b), c)),
            lambda a, b, c: and_(and_(a, TRUE), b), lambda a, b, c: and_(and_(a, b), c), lambda a, b, c: or_(or_(a, b), c),
            lambda a, b, c: not_(not_(a)), lambda a, b, c: and_(not_(not_(a)), b), lambda a, b, c: or_(then(not_(a), b), c),
            lambda a, b, c: or_(then(or_(then(a, b), FAIL), c), a), lambda a, b, c: then(then(a, b), c), lambda a, b, c: or_(then(a, TRUE), FAIL),
            lambda a, b, c: or_(then(a, or_(then(b, c), FAIL)), c), lambda a, b, c: and_(or_(then(a, b), TRUE), c), lambda a, b, c: or_(and_(TRUE, then(a, b)), c),
            lambda a, b, c: and_(or_(and_(a, CUT), b), c), lambda a, b, c: or_(then(a, and_(b, CUT)), c)]
    scns = []
    tests = {"t1": [1], "t12": [1, 2], "t23": [2, 3], "t3": [3]}
    for i in range(n):
        body = ctxs[i % len(ctxs)](small(), small(), small())
        if rnd.random() < 0.5:
            body = and_(call(C("g", X)), body)
        script = {"g/1": [clause(C("g", I(k))) for k in (1, 2, 3)],
                  "t/3": [{"h": C("t", X, Y, R), "body": body, "nv": 3}, clause(C("t", A("z"), A("z"), A("z")))]}
        for nme, vals in tests.items():
            script[nme + "/1"] = [clause(C(nme, I(k))) for k in vals]
        scns.append({"scripts": {"P": script}, "steps": [[{"op": "load", "e": 1, "script": "P", "ow": True}],
                                                      [{"op": "solve", "e": 1, "r": 1, "goal": C("t", V(0), V(1), V(2)), "qnv": 3, "k": 0}]], "keys": []})
    return scns


def run_bodies(prop, tier, seed):
    chk = Check(prop, tier, seed)
    rnd = random.Random(seed)
    plan = [(5, 0, 2, 1.0 if prop == "C05" else 0.6, 0.25), (3, 3, 2, 0.5 if prop == "C05" else 0.2, 0.0)] if tier == "quick" else \
           [(6, 0, 2, 1.0, 0.25), (4, 3, 2, 1.0, 0.1), (4, 0, 3, 1.0, 0.0)]
    for (n1, n2, sol, frac, wfrac) in plan:
        res = bodies.enumerate_instances(n1, n2, sol, ir=(n2 == 0))
        chk.add_tlc(res, ["CodegenRefinesControl"])
        if n2 == 0:
            nd, dr = bodies.drift(res.records, 4000)
            chk.extra["codegen_model_vs_real_compile_body"] = {"instances_compared": nd, "differences": len(dr)}
            for d in dr[:3]:
                chk.drift.append({"SPEC-DRIFT": "spec/Codegen.tla!Comp differs from YPPrologCompiler.compile_body", "instance": d})
        inst = [r for r in bodies.dedupe(res.records) if select(prop, r)]
        total = len(inst)
        if frac < 1.0:
            inst = [r for r in inst if rnd.random() < frac]
        scns = [bodies.scenario(r, wrapper=(rnd.random() < wfrac)) for r in inst]
        name = "bodies-%d-%d-sol%d" % (n1, n2, sol)
        chk.notes.append("%s: %d instances selected of %d (fraction %.2f, seed %d); caller wrapper on a fraction %.2f" % (name, len(inst), total, frac, seed, wfrac))
        # keep TLC batches moderate
        B = 6000
        for i in range(0, len(scns), B):
            chk.machine_family(name + ("-%d" % (i // B) if len(scns) > B else ""), scns[i:i + B],
                               props=("AnswersAreSLD", "CleanAfterEnd", "BarriersOK"), features=features, opts_list=MODES)
    # data-dependent bodies: generators and tests on shared variables, deeper nesting than the
    # exhaustive family reaches (no denotational reference here: the machine is the oracle)
    from .. import gen
    n = 1500 if tier == "quick" else 25000
    dd = [gen.dd_scenario(rnd) for _ in range(n)]
    if prop == "C05":
        dd = [s for s in dd if "cut" in bodies.kinds(s["scripts"]["P"]["t/3"][0]["body"])][: n // 2]
    for i in range(0, len(dd), 5000):
        chk.machine_family("data-dependent-bodies-%d" % (i // 5000), dd[i:i + 5000], props=("CleanAfterEnd", "BarriersOK"), features=features, opts_list=MODES)
    if prop == "C05":
        chk.machine_family("heads-with-cuts", head_cut_scenarios(), props=("CleanAfterEnd", "BarriersOK"), features=features)
        chk.machine_family("scope-of-a-cut-name-arity-definition", cut_scope_scenarios(), {"must_complete": True}, props=("CleanAfterEnd", "BarriersOK"), features=features,
                           opts_list=[{"must_complete": True, "mode": "full"}, {"must_complete": True, "mode": "minimal"}])
        SG = gen.scale_groups()
        chk.machine_family("scale-many-clauses-with-cuts", SG["manyclauses-cut"], {"budget_extra": 20000000, "must_complete": True}, props=("CleanAfterEnd", "BarriersOK"), features=features, max_steps=8000)
        chk.machine_family("scale-many-cuts-then-evaluate_bounded", SG["cuts-then-bounded"], {"budget_extra": 20000000, "must_complete": True}, props=("CleanAfterEnd", "BarriersOK"), features=features, max_steps=30000)
    if prop == "C06":
        rs = gen.reentered_scenarios(rnd, 700 if tier == "quick" else None)
        chk.machine_family("constructs-re-entered-per-answer", rs, props=("CleanAfterEnd", "BarriersOK"), features=features, opts_list=MODES)
        chk.machine_family("terms-that-print-alike-in-one-clause", gen.twin_scenarios(), {"must_complete": True}, props=("CleanAfterEnd", "BarriersOK"), features=features, opts_list=MODES)
        chk.machine_family("user-predicates-named-like-control-words", [s_ for s_ in gen.special_name_scenarios() if "not/1" in s_["scripts"]["P"] or "call_1/1" in s_["scripts"]["P"]],
                           props=("CleanAfterEnd", "BarriersOK"), features=features, opts_list=MODES)
        mc = gen.many_construct_scenarios()
        if tier == "quick":
            rnd.shuffle(mc)
            mc = mc[:80]
        chk.machine_family("twenty-and-more-constructs-in-one-predicate", mc, props=("CleanAfterEnd", "BarriersOK"), features=features, max_steps=4000)
    sh = identity_shapes(rnd, 1200 if tier == "quick" else 12000)
    if prop == "C05":
        sh = [s for s in sh if "cut" in bodies.kinds(s["scripts"]["P"]["t/3"][0]["body"])]
    for i in range(0, len(sh), 5000):
        chk.machine_family("identity-shapes-%d" % (i // 5000), sh[i:i + 5000], props=("CleanAfterEnd", "BarriersOK"), features=features, opts_list=MODES)
    chk.exhaustive = (tier == "thorough")
    need = ["DoCut", "DoConj", "DoCallClause"] + (["DoDisj", "DoIte", "DoNot", "DoCommit"] if prop == "C06" else [])
    missing = [e for e in need if not chk.events.get(e)]
    if missing:
        chk.machinery_errors.append("vacuity: spec steps never taken: %s" % missing)
    chk.assumptions = ["TLC; spec/Control.tla is the reference reading of the standard semantics (cross-checked against spec/YP.tla by AnswersAreSLD and against spec/Codegen.tla by CodegenRefinesControl)",
                       "harness/terms.py renders bodies with the precedence table of the property text"]
    return chk.finish()


def run(tier, seed):
    return run_bodies("C05", tier, seed)
