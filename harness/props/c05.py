"""C05 - cut commits the clause and nothing else.

Pipeline: TLC enumerates all clause bodies up to a node bound over {leaf, true, fail, !,
',', ';', '->', '\\+'} (cuts only in transparent positions) x leaf solution counts on
spec/Codegen.tla, checking CodegenRefinesControl (the model of the code generation scheme
refines the denotational semantics of spec/Control.tla) and printing each instance with its
reference answers; the machine spec/YP.tla runs each instance (invariant AnswersAreSLD:
machine = denotational semantics); every behaviour is replayed on the real compiler +
engine in two renderings (fully parenthesised, minimal parentheses)."""
import random

from ..core import Check
from .. import bodies

MODES = [{"mode": "full"}, {"mode": "minimal"}]


def features(scn, rec, r):
    d = r.get("detail", "")
    return {"exc": d.split(":")[1] if r.get("kind") == "exception" and ":" in d else "",
            "where": d.split(":")[2] if r.get("kind") == "exception" and d.count(":") >= 2 else "",
            "phase": d.split(":")[0] if r.get("kind") == "exception" else ""}


def select(prop, rec):
    ks = set()
    for c in rec["clauses"][:-1]:
        bodies.kinds(c, ks)
    if prop == "C05":
        return "cut" in ks
    return bool(ks & {"or", "then", "not"})


def run_bodies(prop, tier, seed):
    chk = Check(prop, tier, seed)
    rnd = random.Random(seed)
    plan = [(5, 0, 2, 1.0 if prop == "C05" else 0.6, 0.25), (3, 3, 2, 0.5 if prop == "C05" else 0.2, 0.0)] if tier == "quick" else \
           [(6, 0, 2, 1.0, 0.25), (4, 3, 2, 1.0, 0.1), (4, 0, 3, 1.0, 0.0)]
    for (n1, n2, sol, frac, wfrac) in plan:
        res = bodies.enumerate_instances(n1, n2, sol, ir=(n2 == 0))
        chk.add_tlc(res, ["CodegenRefinesControl"])
        if n2 == 0:
            nd, dr = bodies.drift(res.records, 4000)
            chk.extra["codegen_model_vs_real_compile_body"] = {"instances_compared": nd, "differences": len(dr)}
            for d in dr[:3]:
                chk.drift.append({"SPEC-DRIFT": "spec/Codegen.tla!Comp differs from YPPrologCompiler.compile_body", "instance": d})
        inst = [r for r in bodies.dedupe(res.records) if select(prop, r)]
        total = len(inst)
        if frac < 1.0:
            inst = [r for r in inst if rnd.random() < frac]
        scns = [bodies.scenario(r, wrapper=(rnd.random() < wfrac)) for r in inst]
        name = "bodies-%d-%d-sol%d" % (n1, n2, sol)
        chk.notes.append("%s: %d instances selected of %d (fraction %.2f, seed %d); caller wrapper on a fraction %.2f" % (name, len(inst), total, frac, seed, wfrac))
        # keep TLC batches moderate
        B = 6000
        for i in range(0, len(scns), B):
            chk.machine_family(name + ("-%d" % (i // B) if len(scns) > B else ""), scns[i:i + B],
                               props=("AnswersAreSLD", "CleanAfterEnd", "BarriersOK"), features=features, opts_list=MODES)
    # data-dependent bodies: generators and tests on shared variables, deeper nesting than the
    # exhaustive family reaches (no denotational reference here: the machine is the oracle)
    from .. import gen
    n = 1500 if tier == "quick" else 25000
    dd = [gen.dd_scenario(rnd) for _ in range(n)]
    if prop == "C05":
        dd = [s for s in dd if "cut" in bodies.kinds(s["scripts"]["P"]["t/3"][0]["body"])][: n // 2]
    for i in range(0, len(dd), 5000):
        chk.machine_family("data-dependent-bodies-%d" % (i // 5000), dd[i:i + 5000], props=("CleanAfterEnd", "BarriersOK"), features=features, opts_list=MODES)
    chk.exhaustive = (tier == "thorough")
    need = ["DoCut", "DoConj", "DoCallClause"] + (["DoDisj", "DoIte", "DoNot", "DoCommit"] if prop == "C06" else [])
    missing = [e for e in need if not chk.events.get(e)]
    if missing:
        chk.machinery_errors.append("vacuity: spec steps never taken: %s" % missing)
    chk.assumptions = ["TLC; spec/Control.tla is the reference reading of the standard semantics (cross-checked against spec/YP.tla by AnswersAreSLD and against spec/Codegen.tla by CodegenRefinesControl)",
                       "harness/terms.py renders bodies with the precedence table of the property text"]
    return chk.finish()


def run(tier, seed):
    return run_bodies("C05", tier, seed)
