"""C20 - Python predicates are interchangeable with compiled ones.

In spec/YP.tla a definition is either a clause list or a native predicate (rows tried like
facts, logged arguments, optional raise point).  For every body-tree instance (cut, ;, ->, \\+
contexts; reference answers from spec/Control.tla) every non-empty subset of its fact predicates
{c1, c2, m} is replaced by a registered Python generator function written from the same rows
(three registration styles, yielding True or False); TLC checks that the machine with native
definitions still produces the reference answers (AnswersAreSLD = NativeInterchangeable), and the
behaviour is replayed on the real engine, where the function also logs the arguments it receives
(compared with the machine's DoCallNative log) and raises a tagged exception that must reach the
consumer as the same object."""
import itertools
import random

from ..core import Check
from ..terms import A, I, V, C, NIL, lst, clause, call, and_, or_, then, not_, conj, TRUE
from .. import bodies
from .c05 import features

STYLES = ["inferred", "explicit", "variadic"]


def nativize(rec, subset, style, yields, rnd, dynamic=False, meta=False):
    s = bodies.scenario(rec, wrapper=False)
    script = s["scripts"]["P"]
    steps = [s["steps"][0]]
    cnts = {"c1": rec["cnt"][0], "c2": rec["cnt"][1], "m": 1}
    for name in subset:
        script.pop(name + "/1", None)
        rows = [{"args": [I(i)], "nv": 0} for i in range(1, cnts[name] + 1)]
        steps.append([{"op": "register", "e": 1, "name": name, "arity": -1 if style == "variadic" else 1, "style": style,
                       "fid": name, "rows": rows, "raise": {"call": 0, "row": 0}, "yields": yields}])
    if dynamic:
        # a dynamic fact of the same key next to the definition: facts come first
        steps.append([{"op": "assert", "e": 1, "term": C("c1", I(7)), "atEnd": True, "r": 0}])
        del s["sem"]
    steps.append(s["steps"][1])
    s["steps"] = steps
    if "sem" in s:
        s["sem"][0]["step"] = len(steps)
    return s


def meta_scenarios():
    """native predicates under call/N, once, findall and next to dynamic facts, with raise points"""
    X, Y, Z = V(0), V(1), V(2)
    script = {
        "k1/2": [clause(C("k1", X, Y), conj(call(C("call", A("nat"), X)), call(C("once", C("nat", Y)))))],
        "k2/2": [clause(C("k2", X, Y), conj(call(C("findall", Z, C("nat", Z), X)), call(C("nat2", Y, A("b")))))],
        "k3/2": [clause(C("k3", X, Y), conj(call(C("=", Z, C("nat2", X))), call(C("call", Z, Y)), not_(call(C("nat", I(5))))))],
        "k4/2": [clause(C("k4", X, Y), conj(call(C("nat2", C("f", X), Y)), call(C("nat", X))))],
    }
    rows1 = [{"args": [I(1)], "nv": 0}, {"args": [I(2)], "nv": 0}, {"args": [V(0)], "nv": 1}]
    rows2 = [{"args": [I(1), A("a")], "nv": 0}, {"args": [C("f", V(0)), A("b")], "nv": 1}, {"args": [I(2), A("b")], "nv": 0}]
    scns = []
    CK = ("plain", "wrapped", "method", "partial", "object")
    # exception types of the application's predicates; each must reach the consumer as the object that was raised,
    # also the ones the engine itself catches for purposes of its own (AttributeError, TypeError, KeyError, UnboundLocalError)
    EXCS = ["custom", "TypeError", "ValueError", "KeyError", "RuntimeError", "AttributeError", "IndexError", "ZeroDivisionError", "OSError",
            "NameError", "UnboundLocalError", "AssertionError"]
    for idx, ((g, qnv), style, yields, rp) in enumerate(itertools.product([(C("k1", V(0), V(1)), 2), (C("k2", V(0), V(1)), 2), (C("k3", V(0), V(1)), 2), (C("k4", V(0), V(1)), 2)],
                                                       STYLES, (True, False), [(0, 0), (1, 1), (2, 0), (3, 2)])):
        steps = [[{"op": "load", "e": 1, "script": "P", "ow": True}],
                 [{"op": "register", "e": 1, "name": "nat", "arity": -1 if style == "variadic" else 1, "style": style, "fid": "nat", "rows": rows1,
                   "ckind": CK[idx % 5] if style == "inferred" else "plain",
                   "raise": {"call": rp[0], "row": rp[1], "exc": EXCS[(idx + rp[0]) % len(EXCS)]}, "yields": yields}],
                 [{"op": "register", "e": 1, "name": "nat2", "arity": -1 if style == "variadic" else 2, "style": style, "fid": "nat2", "rows": rows2,
                   "ckind": CK[(idx // 5 + 1) % 5] if style == "inferred" else "plain",
                   "raise": {"call": 0, "row": 0}, "yields": not yields}],
                 [{"op": "assert", "e": 1, "term": C("nat", I(0)), "atEnd": True, "r": 0}],
                 [{"op": "solve", "e": 1, "r": 1, "goal": g, "qnv": qnv, "k": 0}],
                 [{"op": "solve", "e": 1, "r": 2, "goal": C("nat", V(0)), "qnv": 1, "k": 0}]]
        scns.append({"scripts": {"P": script}, "steps": steps, "keys": [{"n": "nat", "k": 1}]})
    # definitions chained after a native predicate (non-overwrite load), for both yield values, and a
    # zero-argument predicate supplied by a generic *args function under an explicit arity 0
    extra = {"nat/1": [clause(C("nat", I(9)))], "zero/0": [clause(A("zero"))],
             "usez/1": [clause(C("usez", X), or_(then(call(A("zero")), call(C("=", X, A("yes")))), call(C("=", X, A("no")))))]}
    for yields in (True, False):
        for ar_style in ("explicit-varargs", "explicit", "inferred"):
            steps = [[{"op": "register", "e": 1, "name": "nat", "arity": 1, "style": "explicit", "fid": "nat", "rows": rows1, "raise": {"call": 0, "row": 0}, "yields": yields}],
                     [{"op": "register", "e": 1, "name": "zero", "arity": 0, "style": ar_style, "fid": "zero", "rows": [{"args": [], "nv": 0}], "raise": {"call": 0, "row": 0}, "yields": yields}],
                     [{"op": "solve", "e": 1, "r": 1, "goal": A("zero"), "qnv": 0, "k": 0}],
                     [{"op": "solve", "e": 1, "r": 2, "goal": C("zero", V(0)), "qnv": 1, "k": 0}],
                     [{"op": "load", "e": 1, "script": "X", "ow": False}],
                     [{"op": "solve", "e": 1, "r": 3, "goal": C("nat", V(0)), "qnv": 1, "k": 0}],
                     [{"op": "solve", "e": 1, "r": 4, "goal": A("zero"), "qnv": 0, "k": 0}],
                     [{"op": "solve", "e": 1, "r": 5, "goal": C("usez", V(0)), "qnv": 1, "k": 0}],
                     [{"op": "load", "e": 1, "script": "X", "ow": True}],
                     [{"op": "solve", "e": 1, "r": 6, "goal": C("nat", V(0)), "qnv": 1, "k": 0}]]
            scns.append({"scripts": {"P": script, "X": extra}, "steps": steps, "keys": []})
    return scns


EXC_TYPES = ["custom", "TypeError", "ValueError", "KeyError", "RuntimeError", "AttributeError", "IndexError", "ZeroDivisionError", "OSError",
             "NameError", "UnboundLocalError", "AssertionError"]


def exception_route_scenarios():
    """every exception type x every route by which the predicate is reached (direct goal, call/N inline and through a
    bound variable, findall, once, negation, condition of an if-then-else, through the API): the consumer gets the very
    object the predicate raised, after the first answer and before any"""
    X, Y, Z = V(0), V(1), V(2)
    script = {"d/1": [clause(C("d", X), call(C("nat", X)))],
              "c/1": [clause(C("c", X), call(C("call", A("nat"), X)))],
              "c2/1": [clause(C("c2", X), conj(call(C("=", Y, C("nat", X))), call(C("call", Y))))],
              "f/1": [clause(C("f", X), call(C("findall", Y, C("nat", Y), X)))],
              "o/1": [clause(C("o", X), conj(call(C("d", Y)), call(C("once", C("nat", X)))))],
              "n/1": [clause(C("n", X), conj(call(C("=", X, A("in"))), not_(call(C("nat", I(7))))))],
              "i/1": [clause(C("i", X), or_(then(conj(call(C("nat", X)), call(C("=", X, I(2)))), TRUE), call(C("=", X, A("none")))))]}
    rows = [{"args": [I(1)], "nv": 0}, {"args": [I(2)], "nv": 0}]
    scns = []
    for exc in EXC_TYPES:
        for callno, row in ((1, 1), (1, 0), (2, 1)):
            reg = {"op": "register", "e": 1, "name": "nat", "arity": 1, "style": "explicit", "fid": "nat", "rows": rows,
                   "raise": {"call": callno, "row": row, "exc": exc}, "yields": False}
            for g, q in [(C("d", V(0)), 1), (C("c", V(0)), 1), (C("c2", V(0)), 1), (C("f", V(0)), 1), (C("o", V(0)), 1), (C("n", V(0)), 1), (C("i", V(0)), 1),
                         (C("call", A("nat"), V(0)), 1), (C("findall", V(0), C("nat", V(0)), V(1)), 2)]:
                if callno == 2 and g["n"] not in ("o", "i", "c"):
                    continue
                steps = [[{"op": "load", "e": 1, "script": "P", "ow": True}], [reg], [{"op": "solve", "e": 1, "r": 1, "goal": g, "qnv": q, "k": 0}],
                         [{"op": "solve", "e": 1, "r": 2, "goal": C("nat", V(0)), "qnv": 1, "k": 0}]]
                scns.append({"scripts": {"P": script}, "steps": steps, "keys": []})
    return scns


def late_definition_scenarios():
    """the definition arrives (or is replaced) after the name/arity has already been called: late binding holds for
    Python predicates of every registration style exactly as for compiled ones, with and without dynamic facts of the
    same key, directly and through call/N and a compiled caller"""
    X, Y = V(0), V(1)
    script = {"d/1": [clause(C("d", X), call(C("nat", X)))]}
    extra = {"nat/1": [clause(C("nat", A("compiled")))]}
    rows_a = [{"args": [A("red")], "nv": 0}, {"args": [A("green")], "nv": 0}]
    rows_b = [{"args": [A("second")], "nv": 0}]
    CK = ("plain", "wrapped", "method", "partial", "object")
    probes = [(C("nat", V(0)), 1), (C("d", V(0)), 1), (C("call", A("nat"), V(0)), 1), (C("nat", V(0), V(1)), 2)]

    def probe(base):
        return [[{"op": "solve", "e": 1, "r": base + i, "goal": g, "qnv": q, "k": 0}] for i, (g, q) in enumerate(probes)]

    def reg(style, fid, rows, yields, ck):
        return {"op": "register", "e": 1, "name": "nat", "arity": -1 if style == "variadic" else 1, "style": style, "fid": fid, "rows": rows,
                "ckind": ck if style == "inferred" else "plain", "raise": {"call": 0, "row": 0}, "yields": yields}

    scns = []
    idx = 0
    for first in STYLES:
        for second in STYLES + ["load", "load-ow"]:
            for with_fact in (True, False):
                for yields in (True, False):
                    idx += 1
                    steps = [[{"op": "load", "e": 1, "script": "P", "ow": True}]]
                    if with_fact:
                        steps.append([{"op": "assert", "e": 1, "term": C("nat", A("blue")), "atEnd": True, "r": 0}])
                    steps += probe(10)
                    steps.append([reg(first, "na", rows_a, yields, CK[idx % 5])])
                    steps += probe(20)
                    if second == "load":
                        steps.append([{"op": "load", "e": 1, "script": "X", "ow": False}])
                    elif second == "load-ow":
                        steps.append([{"op": "load", "e": 1, "script": "X", "ow": True}])
                    else:
                        steps.append([reg(second, "nb", rows_b, not yields, CK[(idx + 2) % 5])])
                    steps += probe(30)
                    scns.append({"scripts": {"P": script, "X": extra}, "steps": steps, "keys": [{"n": "nat", "k": 1}] if with_fact else []})
    return scns


def run(tier, seed):
    chk = Check("C20", tier, seed)
    rnd = random.Random(seed)
    res = bodies.enumerate_instances(4 if tier == "quick" else 5, 0, 2)
    chk.add_tlc(res, ["CodegenRefinesControl"])
    inst = [r for r in bodies.dedupe(res.records) if any(bodies.leaf_names(c) - {0} for c in r["clauses"])]
    rnd.shuffle(inst)
    inst = inst[:450 if tier == "quick" else 6000]
    scns = []
    subsets = [s for k in (1, 2, 3) for s in itertools.combinations(["c1", "c2", "m"], k)]
    for i, r in enumerate(inst):
        if tier == "quick":
            choice = [subsets[i % len(subsets)], subsets[(i * 3 + 1) % len(subsets)]]
        else:
            choice = subsets
        for sub in choice:
            scns.append(nativize(r, sub, STYLES[(i + len(sub)) % 3], bool(i % 2), rnd, dynamic=(i % 7 == 0)))
    for i in range(0, len(scns), 5000):
        chk.machine_family("bodies-native-%d" % (i // 5000), scns[i:i + 5000], props=("AnswersAreSLD", "CleanAfterEnd"),
                           features=features, opts={"check_nlog": True})
    chk.machine_family("meta-and-raise", meta_scenarios(), features=features, opts={"check_nlog": True})
    chk.machine_family("exception-types-by-route", exception_route_scenarios(), features=features)
    chk.machine_family("definition-arrives-after-the-first-call", late_definition_scenarios(), features=features)
    need = ["DoCallNative", "DoNativeExhausted", "DoNativeRaise", "DoCut", "DoCallFacts"]
    missing = [e for e in need if not chk.events.get(e)]
    if missing:
        chk.machinery_errors.append("vacuity: spec steps never taken: %s" % missing)
    chk.assumptions = ["the Python predicate is the driver's generic row-unifying generator (harness/real.py make_native)"]
    return chk.finish()
