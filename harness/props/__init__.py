import importlib

def load(prop):
    return importlib.import_module("harness.props." + prop.lower())
