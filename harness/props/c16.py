"""C16 - source literals and Python values denote the same terms.

spec/Literals.tla gives executable definitions of what a literal denotes (Unquote, NumeralValue,
list and list-pair folding, `_` as a fresh variable) and of to_python; TLC evaluates them on
observations recorded from the real compiler + engine: the term p(X) is bound to after compiling a
clause containing the literal in fact, rule-head and body position, to_python of it, whether the
same term built with atom/functor/listpair/makelist unifies with the compiled literal (same engine
and a second engine), and whether atoms are one object per name per engine.  Literals: enumerated
shapes over boundary lexemes and seeded random ones (all Unicode planes, quotes as \\', newlines, no
other backslash; nested compounds, lists, list pairs; integers up to 40 digits)."""
import json
import os
import random
import sys

from ..core import Check
from .. import tlc


def cps(s):
    return [ord(c) for c in s]


# ---------------------------------------------------------------- literals with their intended value
def mk_atom(text):
    import re
    if re.fullmatch(r"[a-z_][A-Za-z0-9_]*", text) and text not in ("true", "fail") and not text.startswith("_"):
        return {"k": "atom", "text": cps(text)}, {"t": "a", "n": cps(text)}, text
    return mk_qatom(text)


def mk_qatom(text):
    raw = "'" + text.replace("'", "\\'") + "'"
    return {"k": "qatom", "raw": cps(raw)}, {"t": "a", "n": cps(text)}, raw


def mk_num(spelling):
    v = str(int(spelling))
    return {"k": "num", "digits": [int(c) for c in spelling]}, {"t": "i", "d": [int(c) for c in v]}, spelling


class Gen:
    def __init__(self, rnd):
        self.rnd = rnd
        self.occ = 0

    def text(self):
        r = self.rnd
        k = r.random()
        if k < 0.25:
            return r.choice(["foo", "a", "bar_1", "xY9", "[]", "", " ", "hello world", "it's", "''", "a'b'c", "\n", "a\nb", "\t", "\"dq\"", "%not a comment",
                             "é", "日本語", "🙂", "A", "_x", "X", "1", "007", "true", "fail", "!", ":-", ".", "a.b", "(", ")", "[", "|", ",", "\\+" if False else "+"])
        n = r.randint(1, 12)
        out = []
        for _ in range(n):
            p = r.random()
            if p < 0.4:
                c = chr(r.randint(0x20, 0x7e))
            elif p < 0.5:
                c = r.choice("\n\t\r '\"%")
            elif p < 0.7:
                c = chr(r.randint(0xa0, 0x2fff))
            elif p < 0.85:
                c = chr(r.randint(0x3000, 0xd7ff))
            elif p < 0.92:
                c = chr(r.randint(0xe000, 0xffff))
            else:
                c = chr(r.randint(0x10000, 0x10ffff))
            if c == "\\":
                c = "/"
            out.append(c)
        return "".join(out)

    def atom(self):
        return mk_atom(self.text()) if self.rnd.random() < 0.5 else mk_qatom(self.text())

    def num(self):
        r = self.rnd
        k = r.random()
        if k < 0.3:
            return mk_num(r.choice(["0", "1", "7", "00", "01", "007", "10", "42"]))
        if k < 0.6:
            return mk_num(str(r.randint(0, 10 ** r.randint(1, 18))))
        return mk_num("".join(r.choice("0123456789") for _ in range(r.randint(19, 40))))

    def var(self, env):
        name = self.rnd.choice(["X", "Y", "Zed", "_a", "True", "ATOM_NIL", "X1", "_G1", "_G2", "_G3", "_x1", "_x2", "X1_", "_X"])
        return {"k": "var", "name": cps(name)}, {"t": "v", "name": name}, name

    def anon(self):
        self.occ += 1
        return {"k": "anon", "occ": self.occ}, {"t": "v", "name": "_%d" % self.occ}, "_"

    def term(self, depth, env):
        r = self.rnd
        k = r.random()
        if depth <= 0 or k < 0.3:
            j = r.random()
            if j < 0.45:
                return self.atom()
            if j < 0.7:
                return self.num()
            if j < 0.9:
                return self.var(env)
            return self.anon()
        if k < 0.55:
            f = self.atom()
            while f[1]["n"] == cps("[]") and False:
                f = self.atom()
            n = r.randint(1, 3)
            args = [self.term(depth - 1, env) for _ in range(n)]
            return ({"k": "cmp", "f": f[0], "args": [a[0] for a in args]},
                    {"t": "c", "n": f[1]["n"], "a": [a[1] for a in args]},
                    f[2] + "(" + ",".join(a[2] for a in args) + ")")
        if k < 0.8:
            n = r.randint(0, 4)
            items = [self.term(depth - 1, env) for _ in range(n)]
            val = {"t": "a", "n": cps("[]")}
            for it in reversed(items):
                val = {"t": "c", "n": cps("."), "a": [it[1], val]}
            return ({"k": "list", "items": [i[0] for i in items]}, val, "[" + ",".join(i[2] for i in items) + "]")
        n = r.randint(1, 3)
        items = [self.term(depth - 1, env) for _ in range(n)]
        tail = self.var(env) if r.random() < 0.8 else self.anon()
        val = tail[1]
        for it in reversed(items):
            val = {"t": "c", "n": cps("."), "a": [it[1], val]}
        return ({"k": "lpair", "items": [i[0] for i in items], "tail": tail[0]}, val, "[" + ",".join(i[2] for i in items) + "|" + tail[2] + "]")


def canonical(val):
    names = {}

    def go(t):
        if t["t"] == "v":
            return {"t": "v", "id": names.setdefault(t["name"], len(names))}
        if t["t"] == "c":
            return {"t": "c", "n": t["n"], "a": [go(a) for a in t["a"]]}
        return t
    return go(val)


def enumerated(rnd):
    """boundary lexemes in all literal shapes"""
    g = Gen(rnd)
    out = []
    texts = ["foo", "", " ", "hello world", "it's", "'", "''", "a'", "'a", "\n", "a\nb\n", "\"", "%c", "é", "日本", "🙂", "[]", ".", "X", "_", "1", "true", "x" * 200]
    for t in texts:
        a = mk_qatom(t)
        out.append(a)
        out.append(({"k": "cmp", "f": a[0], "args": [a[0]]}, {"t": "c", "n": a[1]["n"], "a": [a[1]]}, a[2] + "(" + a[2] + ")"))
        out.append(({"k": "list", "items": [a[0], a[0]]},
                    {"t": "c", "n": cps("."), "a": [a[1], {"t": "c", "n": cps("."), "a": [a[1], {"t": "a", "n": cps("[]")}]}]}, "[" + a[2] + "," + a[2] + "]"))
    # two literals in one term whose printed forms coincide (a compiler cache keyed by the printed
    # form would confuse them)
    def cmpl(f, parts):
        fa = mk_atom(f)
        return ({"k": "cmp", "f": fa[0], "args": [p[0] for p in parts]}, {"t": "c", "n": fa[1]["n"], "a": [p[1] for p in parts]},
                fa[2] + "(" + ",".join(p[2] for p in parts) + ")")
    g.occ = 100
    fa = cmpl("f", [mk_atom("a")])
    out.append(cmpl("k", [fa, mk_qatom("f(a)")]))
    out.append(cmpl("k", [mk_qatom("f(a)"), fa]))
    gab = cmpl("g", [mk_atom("a"), mk_atom("b")])
    out.append(cmpl("k", [cmpl("g", [mk_qatom("a,b")]), gab]))
    out.append(cmpl("k", [gab, cmpl("g", [mk_qatom("a,b")])]))
    lab = ({"k": "list", "items": [mk_atom("a")[0], mk_atom("b")[0]]},
           {"t": "c", "n": cps("."), "a": [mk_atom("a")[1], {"t": "c", "n": cps("."), "a": [mk_atom("b")[1], {"t": "a", "n": cps("[]")}]}]}, "[a,b]")
    lq = ({"k": "list", "items": [mk_qatom("a,b")[0]]}, {"t": "c", "n": cps("."), "a": [mk_qatom("a,b")[1], {"t": "a", "n": cps("[]")}]}, "['a,b']")
    out.append(cmpl("k", [lq, lab]))
    out.append(cmpl("k", [lab, lq]))
    out.append(cmpl("w", [cmpl("f", [mk_atom("x1"), g.anon()])]))
    out.append(cmpl("w", [cmpl("f", [g.anon(), mk_atom("x1")])]))
    out.append(cmpl("k", [({"k": "list", "items": [g.anon()[0], mk_atom("x1")[0]]},
                           {"t": "c", "n": cps("."), "a": [{"t": "v", "name": "_%d" % g.occ}, {"t": "c", "n": cps("."), "a": [mk_atom("x1")[1], {"t": "a", "n": cps("[]")}]}]}, "[_,x1]")]))
    vx = ({"k": "var", "name": cps("X")}, {"t": "v", "name": "X"}, "X")
    out.append(cmpl("v", [cmpl("f", [vx]), mk_qatom("X_"), cmpl("f", [mk_qatom("X_")])]))
    out.append(cmpl("v", [cmpl("f", [mk_qatom("X_")]), cmpl("f", [vx])]))
    out.append(cmpl("n", [cmpl("f", [mk_num("1")]), cmpl("f", [mk_qatom("1")]), cmpl("f", [mk_num("01")])]))
    for sp in ["0", "1", "00", "01", "007", "10", "1234567890123456789012345678901234567890", "0000000000000000000000000000000000000001"]:
        out.append(mk_num(sp))
    return out


# ---------------------------------------------------------------- observation
def img(x, names, real):
    x = real.walk(x)
    if isinstance(x, real.Variable):
        return {"t": "v", "id": names.setdefault(id(x), len(names))}
    if isinstance(x, real.Atom):
        return {"t": "a", "n": cps(x._name)}
    if isinstance(x, real.Functor):
        return {"t": "c", "n": cps(x._name), "a": [img(a, names, real) for a in x._args]}
    if isinstance(x, bool):
        return {"t": "py", "v": repr(x)}
    if isinstance(x, int):
        return {"t": "i", "d": [int(c) for c in str(x)]}
    return {"t": "py", "v": repr(x)}


def pyimg(v):
    if v is None:
        return {"none": True}
    if isinstance(v, bool):
        return {"other": repr(v)}
    if isinstance(v, int):
        return {"i": [int(c) for c in str(v)]}
    if isinstance(v, str):
        return {"s": cps(v)}
    if isinstance(v, list):
        return {"l": [pyimg(x) for x in v]}
    if isinstance(v, tuple) and len(v) == 2 and isinstance(v[0], str) and isinstance(v[1], list):
        return {"f": v[0] and cps(v[0]) or [], "a": [pyimg(x) for x in v[1]]}
    return {"other": repr(v)}


def build_api(yp, val, env, real):
    """the same term built with atom/functor/listpair/makelist"""
    t = val["t"]
    if t == "a":
        return yp.ATOM_NIL if val["n"] == cps("[]") and False else yp.atom("".join(map(chr, val["n"])))
    if t == "i":
        return int("".join(map(str, val["d"])))
    if t == "v":
        return env.setdefault(val["name"], yp.variable())
    if val["n"] == cps(".") and len(val["a"]) == 2:
        # proper list -> makelist, otherwise listpair
        items = []
        x = val
        while x["t"] == "c" and x["n"] == cps(".") and len(x["a"]) == 2:
            items.append(x["a"][0]); x = x["a"][1]
        if x["t"] == "a" and x["n"] == cps("[]"):
            return yp.makelist([build_api(yp, i, env, real) for i in items])
        tail = build_api(yp, x, env, real)
        for i in reversed(items):
            tail = yp.listpair(build_api(yp, i, env, real), tail)
        return tail
    return yp.functor("".join(map(chr, val["n"])), [build_api(yp, a, env, real) for a in val["a"]])


def build_api_indirect(yp, val, env, real, held):
    """the same term with every list tail and every other compound argument reached through a variable that a
    suspended unification has bound (chains of two variables for tails): what a consumer holds in the middle of a query"""
    t = val["t"]
    if t != "c":
        return build_api(yp, val, env, real)

    def via(term, hops):
        v = yp.variable()
        first = v
        for _ in range(hops - 1):
            w = yp.variable()
            g = iter(real.engine.unify(v, w)); next(g); held.append(g)
            v = w
        g = iter(real.engine.unify(v, term)); next(g); held.append(g)
        return first
    if val["n"] == cps(".") and len(val["a"]) == 2:
        return yp.listpair(build_api_indirect(yp, val["a"][0], env, real, held), via(build_api_indirect(yp, val["a"][1], env, real, held), 2))
    args = []
    for i, a in enumerate(val["a"]):
        b = build_api_indirect(yp, a, env, real, held)
        args.append(via(b, 1) if i % 2 == 0 else b)
    return yp.functor("".join(map(chr, val["n"])), args)


def observe(item):
    lit, val, text, pos = item
    from .. import real
    import io, contextlib
    rec = {"lit": lit, "intended": canonical(val), "pos": pos, "text": text[:300], "accepted": False, "obs": {"t": "a", "n": []}, "py": {"none": True},
           "api_unifies": True, "cross_unifies": True, "atoms_interned": True, "py_direct": {"absent": True}}
    many = pos.endswith("+many-atoms")
    if many:
        pos = pos.split("+")[0]
    if pos == "fact":
        src = "p(%s).\n" % text
    elif pos == "head":
        src = "p(%s) :- true.\n" % text
    else:
        src = "p(Res__) :- Res__ = %s.\n" % text
    try:
        with contextlib.redirect_stderr(io.StringIO()):
            code = real.compiler.compile_prolog_from_string(src)
        yp = real.YP()
        yp.load_script_from_string(code)
    except Exception as e:
        rec["why"] = "rejected: %s" % type(e).__name__
        return rec
    rec["accepted"] = True
    X = yp.variable()
    n = 0
    try:
        for _ in yp.query("p", [X]):
            n += 1
            if n == 1:
                rec["obs"] = img(X, {}, real)
                try:
                    rec["py"] = pyimg(real.engine.to_python(X))
                except Exception as e:
                    rec["py"] = {"exception": type(e).__name__}
                # atoms: one object per name per engine
                v = real.walk(X)
                if isinstance(v, real.Atom):
                    rec["atoms_interned"] = (v is yp.atom(v._name)) and (yp.atom(v._name) is yp.atom(v._name))
                    if many:
                        # a long-running engine: thousands of other names come and go, the literal's atom is still
                        # the one object of its name
                        early = [yp.atom("early%d" % i) for i in range(5)]
                        for i in range(9000):
                            yp.atom("name number %d" % i)
                        rec["atoms_interned"] = rec["atoms_interned"] and (v is yp.atom(v._name)) and all(e is yp.atom(e._name) for e in early) and \
                            (yp.atom("name number 0") is yp.atom("name number 0"))
        if n != 1:
            rec["obs"] = {"t": "py", "v": "p/1 had %d answers" % n}
        # the same term built through the API unifies with the compiled literal
        env = {}
        api = build_api(yp, val, env, real)
        rec["api_unifies"] = sum(1 for _ in yp.query("p", [api])) == 1
        # to_python applied directly to a term whose parts are reached through bound variables
        if val["t"] == "c":
            held = []
            try:
                term = build_api_indirect(yp, val, {}, real, held)
                try:
                    rec["py_direct"] = pyimg(real.engine.to_python(term))
                except Exception as e:
                    rec["py_direct"] = {"exception": type(e).__name__}
            finally:
                for g in reversed(held):
                    g.close()
        yp2 = real.YP()
        api2 = build_api(yp2, val, {}, real)
        rec["cross_unifies"] = sum(1 for _ in yp.query("p", [api2])) == 1
        if isinstance(api2, real.Atom):
            rec["cross_unifies"] = rec["cross_unifies"] and (api2 is not yp.atom(api2._name))
    except Exception as e:
        rec["obs"] = {"t": "py", "v": "exception %s" % type(e).__name__}
        rec["why"] = "%s: %s" % (type(e).__name__, str(e)[:80])
    return rec


def _observe_chunk(chunk):
    return [observe(x) for x in chunk]


def run(tier, seed):
    chk = Check("C16", tier, seed)
    rnd = random.Random(seed)
    g = Gen(rnd)
    lits = enumerated(rnd)
    n = 2500 if tier == "quick" else 40000
    for _ in range(n):
        lits.append(g.term(rnd.choice([0, 1, 2, 3]), {}))
    items = []
    for i, (lit, val, text) in enumerate(lits):
        for pos in (("fact", "head", "body") if i % 3 == 0 else (("fact", "body")[i % 2],)):
            items.append((lit, val, text, pos))
        if i % 40 == 0 and lit.get("k") in ("atom", "qatom"):
            items.append((lit, val, text, "fact+many-atoms"))
    from .. import replay
    chunks = [items[i:i + 100] for i in range(0, len(items), 100)]
    recs = [r for o in replay.pool_map(_observe_chunk, chunks) for r in o]
    fn = os.path.join(tlc.WORK, "C16-recs-%d.json" % os.getpid())
    with open(fn, "w") as f:
        json.dump([{k: r[k] for k in ("lit", "intended", "accepted", "obs", "py", "api_unifies", "cross_unifies", "atoms_interned", "py_direct")} for r in recs], f)
    try:
        res = tlc.run("Literals", "Literals.cfg", env={"TRACE_FILE": fn}, tag="lit-%d" % os.getpid(), xss="1g")
    finally:
        os.unlink(fn)
    chk.add_tlc(res, ["Denote", "ToPy", "GeneratorAgreesWithDenote"])
    verdicts = {r["tid"] - 1: r["failing"] for r in res.records}
    rejected = 0
    for i, r in enumerate(recs):
        chk.evaluations += 1
        chk.validated_traces += 1
        if not r["accepted"]:
            rejected += 1
        else:
            chk.nontrivial.add(r["text"] + r["pos"])
        f = verdicts.get(i)
        if f is None:
            chk.machinery_errors.append("no verdict for record %d" % i)
            continue
        if "GeneratorAgreesWithDenote" in f:
            chk.machinery_errors.append("literal generator and Literals!Denote disagree on %r" % r["text"][:80])
            continue
        if f:
            chk.violation({"kind": "literal", "detail": "%s %s" % (",".join(sorted(f)), r.get("why", "")), "family": "literals-" + r["pos"],
                           "scenario": {"text": r["text"], "position": r["pos"]}, "record": r,
                           "features": {"op": "compile+query", "family": "literals", "clauses": ",".join(sorted(f)), "litkind": r["lit"]["k"]}})
    chk.extra["literals"] = len(recs)
    chk.extra["rejected_by_compiler"] = rejected
    chk.add_sample({"text": recs[7]["text"], "position": recs[7]["pos"], "observed": recs[7]["obs"], "to_python": recs[7]["py"]})
    chk.add_sample({"text": recs[-3]["text"][:200], "position": recs[-3]["pos"], "to_python": recs[-3]["py"]})
    chk.assumptions = ["backslashes other than \\' inside quoted atoms are outside the documented literal syntax and not generated",
                       "to_python of partial lists is unspecified and not compared", "a literal the compiler rejects (e.g. nested too deeply) is not a violation"]
    return chk.finish(rule="one evaluation per (literal, position); non-trivial = accepted by the compiler; distinct by source text and position")
