"""C01 - compiled clauses compute exactly Prolog's answers, in order.

The machine spec/YP.tla (DoCallFacts/DoCallClause/DoConj/DoEq/DoNeq/DoTrue/DoFail, renaming
apart at every activation) predicts the answer sequence of every query of every scenario;
the real compiler + engine must produce the same sequence (canonical variable naming, so
aliasing between unbound variables is compared), stop at the same point and not raise.
Families: F1 head shapes x call modes (enumerated), F2 bodies, F3 textbook corpus with the
published answers asserted in TLC (AnswersAreSLD validates the oracle itself), F4 fresh
variables per activation, and seeded random programs of the C01 fragment."""
import itertools
import os
import random

from ..core import Check
from ..terms import A, I, V, C, NIL, lst, clause, call, and_, conj, TRUE, FAIL
from .. import gen
from .c05 import features

X, Y, T = V(0), V(1), V(2)


def head_patterns():
    an = itertools.count(900)
    return [("X", lambda: X), ("Y", lambda: Y), ("_", lambda: V(next(an))), ("a", lambda: A("a")), ("1", lambda: I(1)),
            ("f(X)", lambda: C("f", X)), ("f(X,Y)", lambda: C("f", X, Y)), ("[]", lambda: NIL),
            ("[X|T]", lambda: lst([X], T)), ("[X,Y]", lambda: lst([X, Y])), ("[_|_]", lambda: lst([V(next(an))], V(next(an)))),
            ("g(f(X))", lambda: C("g", C("f", X)))]


def query_modes(k):
    """argument modes for a k-ary query; returns list of (args, qnv)"""
    def modes():
        return ["u", "a", "b", "1", "f(V)", "[V|W]", "[a,b]", "f(a,b)", "g(f(a))"]
    out = []
    for combo in itertools.product(modes(), repeat=k):
        nv = 0
        args = []
        for m in combo:
            if m == "u":
                args.append(V(nv)); nv += 1
            elif m == "a":
                args.append(A("a"))
            elif m == "b":
                args.append(A("b"))
            elif m == "1":
                args.append(I(1))
            elif m == "f(V)":
                args.append(C("f", V(nv))); nv += 1
            elif m == "[V|W]":
                args.append(lst([V(nv)], V(nv + 1))); nv += 2
            elif m == "[a,b]":
                args.append(lst([A("a"), A("b")]))
            elif m == "f(a,b)":
                args.append(C("f", A("a"), A("b")))
            elif m == "g(f(a))":
                args.append(C("g", C("f", A("a"))))
        out.append((args, nv))
    if k == 2:
        out.append(([V(0), V(0)], 1))             # the same variable twice
        out.append(([C("f", V(0)), V(0)], 1))     # would need a cyclic term for some heads: spec cuts those
    return out


def f1_scenarios(rnd, arities, frac):
    scns = []
    pats = head_patterns()
    for k in arities:
        for combo in itertools.product(pats, repeat=k):
            if frac < 1.0 and rnd.random() > frac:
                continue
            args = [mk() for (_, mk) in combo]
            head = C("h", *args) if k else A("h")
            for variant in range(3):
                if variant == 0:
                    cls = [clause(head)]
                elif variant == 1:
                    cls = [clause(head, call(C("=", X, A("a")))), clause(C("h", *[A("z")] * k) if k else A("h"))]
                else:
                    cls = [clause(C("h", *[V(i) for i in range(k)]) if k else A("h"), FAIL), clause(head, call(C("\\=", X, A("b"))))]
                steps = [[{"op": "load", "e": 1, "script": "P", "ow": True}]]
                qm = query_modes(k)
                if k == 2:
                    qm = [q for q in qm if rnd.random() < 0.25]
                for i, (qa, qnv) in enumerate(qm):
                    steps.append([{"op": "solve", "e": 1, "r": i + 1, "goal": C("h", *qa) if k else A("h"), "qnv": qnv, "k": 0}])
                scns.append({"scripts": {"P": {"h/%d" % k: cls}}, "steps": steps})
    return scns


def corpus():
    """textbook programs with their published answer sequences (validates the oracle: TLC checks
    AnswersAreSLD on the machine; then the code is compared with the machine)"""
    H, Tl, L, R, N = V(0), V(1), V(2), V(3), V(4)
    app = [clause(C("app", NIL, V(0), V(0))),
           clause(C("app", lst([V(0)], V(1)), V(2), lst([V(0)], V(3))), call(C("app", V(1), V(2), V(3))))]
    mem = [clause(C("member", V(0), lst([V(0)], V(900)))),
           clause(C("member", V(0), lst([V(900)], V(1))), call(C("member", V(0), V(1))))]
    rev = [clause(C("rev", NIL, NIL)),
           clause(C("rev", lst([V(0)], V(1)), V(2)), and_(call(C("rev", V(1), V(3))), call(C("app", V(3), lst([V(0)]), V(2)))))]
    nat = [clause(C("nat", A("z"))), clause(C("nat", C("s", V(0))), call(C("nat", V(0))))]
    plus = [clause(C("plus", A("z"), V(0), V(0))),
            clause(C("plus", C("s", V(0)), V(1), C("s", V(2))), call(C("plus", V(0), V(1), V(2))))]
    edge = [clause(C("edge", A(a), A(b))) for a, b in [("a", "b"), ("a", "c"), ("b", "d"), ("c", "d")]]
    path = [clause(C("path", V(0), V(0))), clause(C("path", V(0), V(1)), and_(call(C("edge", V(0), V(2))), call(C("path", V(2), V(1)))))]
    length = [clause(C("len", NIL, A("z"))), clause(C("len", lst([V(900)], V(0)), C("s", V(1))), call(C("len", V(0), V(1))))]
    script = {"app/3": app, "member/2": mem, "rev/2": rev, "nat/1": nat, "plus/3": plus, "edge/2": edge, "path/2": path, "len/2": length}
    a, b, c = A("a"), A("b"), A("c")
    def s(n):
        t = A("z")
        for _ in range(n):
            t = C("s", t)
        return t
    Q = []   # (goal, qnv, k, expected answers, end)
    Q.append((C("app", V(0), V(1), lst([a, b])), 2, 0, [[NIL, lst([a, b])], [lst([a]), lst([b])], [lst([a, b]), NIL]], "stop"))
    Q.append((C("app", lst([a]), lst([b, c]), V(0)), 1, 0, [[lst([a, b, c])]], "stop"))
    Q.append((C("app", lst([a]), V(0), V(1)), 2, 0, [[V(0), lst([a], V(0))]], "stop"))
    Q.append((C("app", V(0), lst([b]), lst([a, b])), 1, 0, [[lst([a])]], "stop"))
    Q.append((C("member", V(0), lst([a, b, a])), 1, 0, [[a], [b], [a]], "stop"))
    Q.append((C("member", b, lst([a, b, c])), 0, 0, [[]], "stop"))
    Q.append((C("member", c, lst([a, b])), 0, 0, [], "stop"))
    Q.append((C("member", a, V(0)), 1, 3, [[lst([a], V(0))], [lst([V(0), a], V(1))], [lst([V(0), V(1), a], V(2))]], "closed"))
    Q.append((C("rev", lst([a, b, c]), V(0)), 1, 0, [[lst([c, b, a])]], "stop"))
    Q.append((C("nat", V(0)), 1, 3, [[s(0)], [s(1)], [s(2)]], "closed"))
    Q.append((C("plus", V(0), V(1), s(2)), 2, 0, [[s(0), s(2)], [s(1), s(1)], [s(2), s(0)]], "stop"))
    Q.append((C("plus", s(1), s(1), V(0)), 1, 0, [[s(2)]], "stop"))
    Q.append((C("path", a, V(0)), 1, 0, [[a], [b], [A("d")], [c], [A("d")]], "stop"))
    Q.append((C("path", V(0), A("d")), 1, 0, [[A("d")], [a], [a], [b], [c]], "stop"))
    Q.append((C("len", lst([a, b]), V(0)), 1, 0, [[s(2)]], "stop"))
    Q.append((C("len", V(0), s(1)), 1, 1, [[lst([V(0)])]], "closed"))
    Q.append((C("=", C("f", V(0), b), C("f", a, V(1))), 2, 0, [[a, b]], "stop"))
    Q.append((C("=", C("f", V(0)), C("g", V(0))), 1, 0, [], "stop"))
    Q.append((C("\\=", a, b), 0, 0, [[]], "stop"))
    Q.append((C("\\=", V(0), b), 1, 0, [], "stop"))
    Q.append((C("\\=", C("f", V(0)), C("f", V(0))), 1, 0, [], "stop"))
    steps = [[{"op": "load", "e": 1, "script": "P", "ow": True}]]
    sem = []
    for i, (g, qnv, k, ans, end) in enumerate(Q):
        steps.append([{"op": "solve", "e": 1, "r": i + 1, "goal": g, "qnv": qnv, "k": k}])
        sem.append({"step": i + 2, "answers": ans, "end": end})
    return {"scripts": {"P": script}, "steps": steps, "sem": sem}


def f4_fresh():
    """a clause called twice in one body and recursively; activations must not share variables"""
    script = {
        "pair/2": [clause(C("pair", V(0), V(1)), and_(call(C("one", V(0))), call(C("one", V(1)))))],
        "one/1": [clause(C("one", C("f", V(0), V(1))), call(C("=", V(0), V(1))))],
        "two/1": [clause(C("two", lst([V(0), V(1)])), and_(call(C("w", V(0))), call(C("w", V(1)))))],
        "w/1": [clause(C("w", C("k", V(900), V(0))), call(C("v", V(0))))],
        "v/1": [clause(C("v", A("a"))), clause(C("v", V(900)))],
        "deep/2": [clause(C("deep", A("z"), NIL)),
                   clause(C("deep", C("s", V(0)), lst([V(1)], V(2))), and_(call(C("w", V(1))), call(C("deep", V(0), V(2)))))],
        "anon/3": [clause(C("anon", V(900), V(901), V(902)))],
        # list patterns with several terms before the bar, in heads and bodies
        "first2/4": [clause(C("first2", lst([V(0), V(1)], V(2)), V(0), V(1), V(2)))],
        "startsab/1": [clause(C("startsab", lst([A("a"), A("b")], V(900))))],
        "third/2": [clause(C("third", V(0), V(1)), call(C("=", V(0), lst([V(900), V(901), V(1)], V(902)))))],
        "z/0": [clause(A("z"), call(A("y")))], "y/0": [clause(A("y")), clause(A("y"))],
        "dup/1": [clause(C("dup", A("a"))), clause(C("dup", A("a"))), clause(C("dup", V(0)), and_(call(A("y")), call(C("=", V(0), A("b")))))],
    }
    def s(n):
        t = A("z")
        for _ in range(n):
            t = C("s", t)
        return t
    goals = [(C("pair", V(0), V(1)), 2), (C("pair", V(0), V(0)), 1), (C("two", V(0)), 1), (C("deep", s(2), V(0)), 1),
             (C("deep", s(3), V(0)), 1), (C("anon", V(0), V(0), V(1)), 2), (C("anon", A("a"), A("b"), V(0)), 1), (A("z"), 0),
             (C("dup", V(0)), 1), (C("dup", A("a")), 0), (C("dup", A("b")), 0), (C("w", V(0)), 1),
             (C("first2", lst([A("a"), A("b"), A("c")]), V(0), V(1), V(2)), 3), (C("first2", V(0), A("x"), A("y"), lst([A("z")])), 1),
             (C("startsab", lst([A("a"), A("b"), A("c")])), 0), (C("startsab", lst([A("b"), A("a"), A("c")])), 0), (C("startsab", V(0)), 1),
             (C("third", lst([I(1), I(2), I(3), I(4)]), V(0)), 1), (C("third", V(0), A("t")), 1)]
    steps = [[{"op": "load", "e": 1, "script": "P", "ow": True}]]
    for i, (g, qnv) in enumerate(goals):
        steps.append([{"op": "solve", "e": 1, "r": i + 1, "goal": g, "qnv": qnv, "k": 0}])
    return {"scripts": {"P": script}, "steps": steps}


def f5_multiclause(rnd, n):
    """predicates of three or four clauses whose heads use the same variable names in different
    positions and nestings (all clauses of a predicate share one generated Python function)"""
    argpats = [lambda: X, lambda: Y, lambda: C("f", X), lambda: C("f", Y), lambda: lst([X], Y), lambda: lst([Y], X), lambda: A("a"), lambda: C("g", X, Y)]
    scns = []
    for _ in range(n):
        k = rnd.choice([3, 3, 4])
        cls = []
        for i in range(k):
            h = C("t", rnd.choice(argpats)(), rnd.choice(argpats)())
            r = rnd.random()
            if r < 0.4:
                body = TRUE
            elif r < 0.7:
                body = call(C("u%d" % i, X, Y))
            elif r < 0.85:
                body = call(C("=", Y, C("k", X)))
            else:
                body = and_(call(C("u%d" % i, T, X)), call(C("=", Y, T)))
            cls.append(clause(h, body))
        script = {"t/2": cls}
        for i in range(k):
            script["u%d/2" % i] = [clause(C("u%d" % i, A("c%d" % i), A("d%d" % i))), clause(C("u%d" % i, C("f", A("e%d" % i)), V(0)))]
        steps = [[{"op": "load", "e": 1, "script": "P", "ow": True}]]
        qs = [([V(0), V(1)], 2), ([A("a"), V(0)], 1), ([V(0), A("a")], 1), ([C("f", V(0)), V(1)], 2), ([lst([V(0), V(1)]), V(2)], 3), ([V(0), V(0)], 1),
              ([C("f", A("c0")), V(0)], 1), ([C("g", V(0), A("b")), C("f", V(1))], 2)]
        for i, (qa, qnv) in enumerate(qs):
            steps.append([{"op": "solve", "e": 1, "r": i + 1, "goal": C("t", *qa), "qnv": qnv, "k": 0}])
        scns.append({"scripts": {"P": script}, "steps": steps})
    return scns


def repo_file_scenarios():
    """every .prolog file of the repository (read with the repository's own parser), each predicate
    queried with all-variables arguments for its first answers, plus the README query"""
    import glob
    import os
    from .. import fromsource
    repo = os.environ.get("YLDPROLOG_REPO", "/repo")
    scns = []
    for f in sorted(glob.glob(os.path.join(repo, "compiler/test/*.prolog")) + glob.glob(os.path.join(repo, "tests/data/*.prolog"))):
        try:
            script = fromsource.parse(open(f, encoding="utf-8").read())
        except Exception:
            continue
        if not script:
            continue
        steps = [[{"op": "load", "e": 1, "script": "P", "ow": True}]]
        r = 0
        for key in script:
            name, ar = key.rsplit("/", 1)
            ar = int(ar)
            r += 1
            g = C(name, *[V(i) for i in range(ar)]) if ar else A(name)
            steps.append([{"op": "solve", "e": 1, "r": r, "goal": g, "qnv": ar, "k": 4}])
        if f.endswith("monkey.prolog"):
            r += 1
            steps.append([{"op": "solve", "e": 1, "r": r, "goal": C("canget", C("state", A("atdoor"), A("onfloor"), A("atwindow"), A("hasnot"))), "qnv": 0, "k": 1}])
        # one scenario per query: a query the specification cannot finish must not hide the others
        for st in steps[1:]:
            scns.append({"scripts": {"P": script}, "steps": [steps[0], st], "file": os.path.relpath(f, repo)})
    return scns


def run(tier, seed):
    chk = Check("C01", tier, seed)
    rnd = random.Random(seed)
    DEC = [{"mode": "full"}, {"mode": "decorated"}]
    chk.machine_family("corpus", [corpus(), f4_fresh()], props=("AnswersAreSLD", "CleanAfterEnd"), features=features, opts_list=DEC)
    if tier == "quick":
        chk.machine_family("F1-heads", f1_scenarios(rnd, (0, 1), 1.0) + f1_scenarios(rnd, (2,), 0.25), features=features)
        n = 1500
    else:
        chk.machine_family("F1-heads", f1_scenarios(rnd, (0, 1), 1.0) + f1_scenarios(rnd, (2,), 0.6), features=features)
        n = 6000
    chk.machine_family("repository-prolog-files", repo_file_scenarios(), features=features, opts_list=DEC)
    chk.machine_family("scale", gen.scale_scenarios(), features=features, max_steps=6000)
    chk.machine_family("terms-that-print-alike-and-names-that-look-like-something-else", gen.twin_scenarios() + gen.special_name_scenarios(),
                       {"must_complete": True}, features=features, max_steps=8000, opts_list=[{"must_complete": True}, {"must_complete": True, "mode": "decorated"}])
    # code -> specification: the repository's own tests, every API call recorded, decided by the machine
    from .. import suite_trace
    suite_trace.validate(chk, os.environ.get("YLDPROLOG_REPO", "/repo"))
    SG = gen.scale_groups()
    BIG = {"budget_extra": 20000000, "must_complete": True}
    chk.machine_family("scale-arity-zeroargs-chains", SG["arity"] + SG["zero"] + SG["chain"] + SG["calln"], BIG, features=features, max_steps=30000)
    # the same programs with once-only variables written `_` and the named ones spelled like names a compiler
    # generates for its own purposes
    NAMES = [{"mode": "names:_G%d"}, {"mode": "names:_x%d"}, {"mode": "names:X%d"}, {"mode": "names:_%d"}, {"mode": "names:__%d_"}]
    an = [gen.anonymise(gen.random_scenario(rnd, {"ops", "rich"}, nclauses=3, depth=rnd.choice([1, 2])), rnd) for _ in range(250 if tier == "quick" else 1500)]
    chk.machine_family("anonymous-and-generated-looking-names", an + [gen.anonymise(f4_fresh(), rnd), gen.anonymise(corpus(), rnd)],
                       features=features, opts_list=NAMES)
    chk.machine_family("F5-multiclause-heads", f5_multiclause(rnd, 400 if tier == "quick" else 6000), features=features)
    frag = {"ops", "rich"}
    scns = [gen.random_scenario(rnd, frag, nclauses=3, depth=rnd.choice([1, 2, 3])) for _ in range(n)]
    for i in range(0, n, 4000):
        chk.machine_family("random-C01-fragment-%d" % (i // 4000), scns[i:i + 4000], features=features, opts_list=DEC)
    need = ["DoCallClause", "DoCallUnknown", "DoConj", "DoEq", "DoNeq", "DoEqFail", "DoNeqFail", "DoTrue", "DoFail", "DoExhausted"]
    missing = [e for e in need if not chk.events.get(e)]
    if missing:
        chk.machinery_errors.append("vacuity: spec steps never taken: %s" % missing)
    chk.assumptions = ["TLC; spec/YP.tla is the reading of depth-first left-to-right SLD resolution (cross-checked on the textbook corpus and, for control, against spec/Control.tla)",
                       "scenarios whose search the specification cannot finish within its fuel, or that need a cyclic term, are cut at that step (counted as truncated)"]
    return chk.finish()
