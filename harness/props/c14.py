"""C14 - changing a predicate while it is being enumerated (logical update view).

spec/YP.tla: a call takes a snapshot of the key's facts when it is made (DoCallFacts); retract
works on its own snapshot, skips facts removed meanwhile and removes by identity
(DoRetractStart/Next).  TLC enumerates every interleaving of up to two suspended enumerations
(query or retract, variable or ground pattern) with asserta/assertz/retract/retractall on the same
predicate, and small bodies that update a predicate between two answers of its enumeration
(including the drain loop and the counter loop of the property text).  Oracle: answers, database
contents after every step, termination within the call budget derived from the spec's step count."""
import itertools
import random

from ..core import Check
from ..terms import A, I, V, C, NIL, lst, clause, call, and_, or_, conj, not_, TRUE, FAIL
from .c05 import features

KEYS = [{"n": "p", "k": 1}, {"n": "c", "k": 1}]


def api_scenarios(depth, init, starts):
    scns = []
    for facts in init:
        for s1, s2 in starts:
            steps = []
            for f in facts:
                steps.append([{"op": "assert", "e": 1, "term": C("p", I(f)), "atEnd": True, "r": 0}])
            steps.append([{"op": "query", "e": 1, "r": 1, "goal": s1, "qnv": 1}])
            steps.append([{"op": "next", "r": 1}, {"op": "solve", "e": 1, "r": 10, "goal": C("assertz", C("p", I(7))), "qnv": 0, "k": 0}])
            for d in range(depth):
                r = 20 + d
                alts = [{"op": "next", "r": 1}, {"op": "next", "r": 2}, {"op": "close", "r": 1, "how": "close"},
                        {"op": "query", "e": 1, "r": 2, "goal": s2, "qnv": 1},
                        {"op": "solve", "e": 1, "r": r, "goal": C("assertz", C("p", I(8))), "qnv": 0, "k": 0},
                        {"op": "solve", "e": 1, "r": r, "goal": C("asserta", C("p", I(9))), "qnv": 0, "k": 0},
                        {"op": "solve", "e": 1, "r": r, "goal": C("retract", C("p", I(2))), "qnv": 0, "k": 1},
                        {"op": "solve", "e": 1, "r": r, "goal": C("retract", C("p", V(0))), "qnv": 1, "k": 1},
                        {"op": "solve", "e": 1, "r": r, "goal": C("retractall", C("p", V(0))), "qnv": 1, "k": 0}]
                steps.append(alts)
            # drain what is left so that lost updates show up in the answers as well as in the database
            steps.append([{"op": "next", "r": 1}])
            steps.append([{"op": "next", "r": 1}])
            steps.append([{"op": "next", "r": 2}])
            steps.append([{"op": "solve", "e": 1, "r": 99, "goal": C("p", V(0)), "qnv": 1, "k": 0}])
            scns.append({"scripts": {}, "steps": steps, "keys": KEYS})
    return scns


def body_scenarios():
    """t(X) :- E1, OP*, [E2], [fail]   with E in {p(X), retract(p(X))}, OP updates of p"""
    X, Y, N = V(0), V(1), V(2)
    E = [call(C("p", X)), call(C("retract", C("p", X)))]
    OPS = [call(C("assertz", C("p", I(5)))), call(C("asserta", C("p", I(6)))), call(C("retract", C("p", I(2)))),
           call(C("retractall", C("p", V(901)))), call(C("retract", C("p", X))), call(C("assertz", C("p", X)))]
    scns = []
    bodies = []
    for e1 in E:
        for nops in (1, 2):
            for ops in itertools.product(OPS, repeat=nops):
                for e2 in [None, call(C("p", Y)), call(C("retract", C("p", Y)))]:
                    for tail in (None, FAIL):
                        gs = [e1] + list(ops) + ([e2] if e2 else []) + ([tail] if tail else [])
                        bodies.append(conj(*gs))
    for i, b in enumerate(bodies):
        script = {"t/2": [clause(C("t", X, Y), b)]}
        for init in ([1, 2, 3], [1]):
            steps = [[{"op": "load", "e": 1, "script": "P", "ow": True}]]
            for f in init:
                steps.append([{"op": "assert", "e": 1, "term": C("p", I(f)), "atEnd": True, "r": 0}])
            steps.append([{"op": "solve", "e": 1, "r": 1, "goal": C("t", V(0), V(1)), "qnv": 2, "k": 6}])
            steps.append([{"op": "solve", "e": 1, "r": 2, "goal": C("p", V(0)), "qnv": 1, "k": 0}])
            scns.append({"scripts": {"P": script}, "steps": steps, "keys": KEYS})
    # the programs of the property text
    drain = {"drain/0": [clause(A("drain"), conj(call(C("p", X)), call(C("retract", C("p", X))), FAIL)), clause(A("drain"))],
             "count/0": [clause(A("count"), conj(call(C("retract", C("c", N))), call(C("assertz", C("c", C("s", N)))), FAIL)), clause(A("count"))],
             "count2/0": [clause(A("count2"), conj(call(C("c", N)), call(C("retract", C("c", N))), call(C("assertz", C("c", C("s", N)))), FAIL)), clause(A("count2"))],
             "grow/1": [clause(C("grow", X), conj(call(C("assertz", C("p", I(1)))), call(C("p", X)), call(C("assertz", C("p", I(2))))))],
             "dup/1": [clause(C("dup", X), conj(call(C("p", X)), call(C("assertz", C("p", X)))))],
             "visit/1": [clause(C("visit", X), conj(call(C("p", X)), call(C("retract", C("p", X)))))]}
    for goal, qnv, init, cinit in [(A("drain"), 0, [1, 2, 3], []), (A("drain"), 0, [], []), (A("count"), 0, [], [A("z")]),
                                   (A("count"), 0, [], [A("z"), C("s", A("z"))]), (A("count2"), 0, [], [A("z"), A("y")]),
                                   (C("grow", V(0)), 1, [], []), (C("grow", V(0)), 1, [3], []), (C("dup", V(0)), 1, [1, 2], []), (C("visit", V(0)), 1, [1, 2, 2, 3], [])]:
        steps = [[{"op": "load", "e": 1, "script": "P", "ow": True}]]
        for f in init:
            steps.append([{"op": "assert", "e": 1, "term": C("p", I(f)), "atEnd": True, "r": 0}])
        for f in cinit:
            steps.append([{"op": "assert", "e": 1, "term": C("c", f), "atEnd": True, "r": 0}])
        steps.append([{"op": "solve", "e": 1, "r": 1, "goal": goal, "qnv": qnv, "k": 0}])
        steps.append([{"op": "solve", "e": 1, "r": 2, "goal": C("p", V(0)), "qnv": 1, "k": 0}])
        steps.append([{"op": "solve", "e": 1, "r": 3, "goal": C("c", V(0)), "qnv": 1, "k": 0}])
        scns.append({"scripts": {"P": drain}, "steps": steps, "keys": KEYS})
    return scns


def run(tier, seed):
    chk = Check("C14", tier, seed)
    starts_q = [(C("p", V(0)), C("retract", C("p", V(0)))), (C("retract", C("p", V(0))), C("p", V(0))),
                (C("retract", C("p", V(0))), C("retract", C("p", V(0))))]
    starts_t = starts_q + [(C("p", V(0)), C("p", V(0))), (C("p", I(2)), C("retract", C("p", I(2)))), (C("retract", C("p", I(2))), C("p", V(0)))]
    from .. import gen as _g
    SG = _g.scale_groups()
    MD = [{}, {"md": True}]

    def fo(scns):
        for s_ in scns:
            s_["facts_only"] = ["p", "mf"]
        return scns
    BIG = {"budget_extra": 20000000, "must_complete": True}
    chk.machine_family("more-than-32-facts", fo(SG["manyfacts"] + SG["manyfacts-rest"]), features=features, max_steps=8000,
                       opts_list=[BIG, dict(BIG, md=True)])
    # the consumer keeps the Atom object it made for the predicate name and goes on using it after clear()
    # (it is then no longer the engine's own object for that name); another engine's atom of the same name
    kept = []
    for mid in ([], [{"op": "clear", "e": 1}], [{"op": "clear", "e": 1}, {"op": "clear", "e": 1}]):
        steps = [[{"op": "assert", "e": 1, "term": C("p", I(0)), "atEnd": True, "r": 0}]] + [[o] for o in mid]
        steps += [[{"op": "assert", "e": 1, "term": C("p", I(1)), "atEnd": True, "r": 0}], [{"op": "assert", "e": 1, "term": C("p", I(2)), "atEnd": True, "r": 0}],
                  [{"op": "query", "e": 1, "r": 1, "goal": C("p", V(0)), "qnv": 1}, {"op": "query", "e": 1, "r": 1, "goal": C("retract", C("p", V(0))), "qnv": 1}],
                  [{"op": "next", "r": 1}],
                  [{"op": "assert", "e": 1, "term": C("p", I(3)), "atEnd": True, "r": 0}],
                  [{"op": "assert", "e": 1, "term": C("p", I(4)), "atEnd": False, "r": 0}],
                  [{"op": "solve", "e": 1, "r": 2, "goal": C("p", V(0)), "qnv": 1, "k": 0}],
                  [{"op": "next", "r": 1}], [{"op": "next", "r": 1}], [{"op": "next", "r": 1}],
                  [{"op": "solve", "e": 1, "r": 3, "goal": C("retract", C("p", V(0))), "qnv": 1, "k": 0}],
                  [{"op": "solve", "e": 1, "r": 4, "goal": C("p", V(0)), "qnv": 1, "k": 0}]]
        kept.append({"scripts": {}, "steps": steps, "keys": [{"n": "p", "k": 1}]})
    chk.machine_family("name-atoms-kept-across-clear", fo(kept), features=features, opts_list=[{}, {"keep_name_atoms": True}, {"keep_name_atoms": True, "md": True}])
    if tier == "thorough":
        chk.machine_family("more-than-1024-facts", fo(SG["manyfacts-big"]), features=features, max_steps=30000,
                           opts_list=[dict(BIG, budget_extra=200000000), dict(BIG, md=True, budget_extra=200000000)], props=("SnapshotsOK", "DbStepShape"))
    if tier == "quick":
        chk.machine_family("api-interleavings-d3", fo(api_scenarios(3, [[1, 2, 3]], starts_q)), features=features, opts_list=MD)
        chk.machine_family("bodies", body_scenarios(), features=features, cfg="YP-live.cfg",
                           props=("Termination (temporal, WF)", "NeverOutOfFuel", "CleanAfterEnd", "FactIdsUnique", "SnapshotsOK", "DbStepShape"))
    else:
        chk.machine_family("api-interleavings-d4", fo(api_scenarios(4, [[1, 2, 3], [1], []], starts_t)), features=features, opts_list=MD)
        chk.machine_family("bodies", body_scenarios(), features=features, cfg="YP-live.cfg",
                           props=("Termination (temporal, WF)", "NeverOutOfFuel", "CleanAfterEnd", "FactIdsUnique", "SnapshotsOK", "DbStepShape"))
    chk.exhaustive = True
    need = ["DoRetractStart", "DoRetractNext", "DoRetractExhausted", "DoCallFacts", "DoRetractAll", "DoAssertz", "DoAsserta"]
    missing = [e for e in need if not chk.events.get(e)]
    if missing:
        chk.machinery_errors.append("vacuity: spec steps never taken: %s" % missing)
    # random API sessions (loads, registrations, asserts through both routes, queries advanced step by
    # step and abandoned between updates, clears) over unusual term shapes; decided by the machine
    from .. import gen as _gen
    _rnd = random.Random(seed * 7919 + 14)
    _ss = [_gen.api_session(_rnd, engines=1, length=_rnd.randint(6, 14)) for _ in range(300 if tier == "quick" else 5000)]
    for _i in range(0, len(_ss), 2500):
        chk.machine_family("api-sessions-%d" % (_i // 2500), _ss[_i:_i + 2500], features=features)
    chk.assumptions = ["termination is decided by a call budget of 1000 x (spec micro steps) + 100000 Python function starts/resumes"]
    return chk.finish()
