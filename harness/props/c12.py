"""C12 - Prolog text cannot become Python code; loaded code sees only the engine API.

(a) spec/Emitted.tla!EmittedOK evaluated by TLC on the recorded AST of the compiler's output for
programs with hostile lexemes in every syntactic position: whitelist of node kinds, calls only to
the engine's term/unify/query functions, string and integer constants only from the source,
assigned names never capture an engine name, read names are parameters/locals/engine names,
function names are the head keys; plus an audit hook (import/open/exec/os.system/subprocess) that
must stay silent while the output is loaded and queried.
(b) spec/YP.tla!DoCallReserved / DoCallUnknown: queries whose name is an engine API name (or a
Python builtin) have no answers and no effect, from yp.query and from compiled bodies.
(c) LoadEnv: a probe script loaded through load_script_from_string sees exactly the engine API
names and an empty __builtins__."""
import random

from ..core import Check
from .. import emitted
from ..emitted import Src, src_from_clauses
from ..terms import A, I, V, C, NIL, lst, clause, call, and_, or_, then, not_, conj, TRUE, FAIL, CUT
from . import c11
from .c05 import features

HOSTILE = ["x\nimport os", "x = 1\n  import os", "'); import os; ('", "\\", "a\\nb", "'''", '"""', "\r", "\x00", "\x1b[0m", "f'{__import__(\"os\")}'",
           "%s %d", "{}", "lbl = True\n        import os", "atom", "query", "__builtins__", "__import__", "eval", "exec", "doBreak", "cutIf1",
           " ", "퟿", "ａ", "𝓍", "x" * 5000]


def hostile_sources():
    out = []
    for h in HOSTILE:
        if "\\" in h:
            continue    # backslashes other than \\' are outside the documented literal syntax
        out.append(src_from_clauses(c11.positions(h), label="hostile-positions:" + repr(h)[:30]))
        out.append(src_from_clauses(c11.head_position(h), label="hostile-head:" + repr(h)[:30]))
        # the generator's internal pseudo goal with a hostile label
        out.append(src_from_clauses([clause(C("cf", V(0)), and_(call(C("$CUTIF", A(h))), call(C("q", V(0)))))], label="hostile-cutif:" + repr(h)[:30]))
        out.append(src_from_clauses([clause(C("cf2", V(0)), call(C("$CUTIF", A(h))))], label="hostile-cutif-alone:" + repr(h)[:30]))
        out.append(src_from_clauses([clause(C("cf4", V(0)), and_(call(C("q", V(0))), and_(call(C("$CUTIF", A(h))), call(C("q", V(0))))))], label="hostile-cutif-mid:" + repr(h)[:30]))
        out.append(src_from_clauses([clause(C("cf3", V(0)), or_(then(call(C("q", V(0))), call(C("$CUTIF", A(h)))), TRUE))], label="hostile-cutif-ite:" + repr(h)[:30]))
    # the same kind of text with every debug option on: debug messages quote atoms of the source
    for h in ["a\rimport os", "a\nimport os", "x\r\ny = 1", "ok\rdef f(): pass", "b\x0bc", "b\x0cc", "z\u2028q = 1", "w\x85v = 2", "line one\nline two", "plain"]:
        for i, cls in enumerate([[clause(C("p1", A(h)))], [clause(C("p3", V(0)), call(C(h, V(0))))], [clause(C("p2", C(h, V(0), A("k"))), call(C("=", V(0), A(h))))]]):
            s = src_from_clauses(cls, label="debug-on:%r:%d" % (h[:20], i))
            s.debug = True
            out.append(s)
    # source encoding declarations (PEP 263) and UTF-7 escapes inside atoms, under each debug option alone:
    # the first lines of the output then quote text of the source
    for decl in ["coding=utf_7", "-*- coding: utf-7 -*-", "vim: set fileencoding=utf_16 :", "coding: latin-1", "coding:rot13"]:
        for payload in ["a+ACc-) or query(+ACc-b", "x+AAo-y = 1", "caf\u00e9 +AOk-", "plain"]:
            for dbg in ("generator", "parser", "filename", True):
                s = src_from_clauses([clause(C("p1", A(decl))), clause(C("p1", A(payload))), clause(C("p1", C("f", A(decl), A(payload))))],
                                     label="coding-declaration:%r:%r:%s" % (decl, payload[:12], dbg))
                s.debug = dbg
                out.append(s)
    return out


def runtime_scenarios():
    names = ["__builtins__", "variable", "atom", "functor", "functor1", "functor2", "functor3", "listpair", "makelist", "ATOM_NIL", "unify",
             "match_dynamic", "query", "True", "False", "eval", "exec", "__import__", "True_0", "print", "open", "getattr", "globals", "ATOM", "match",
             "__class__", "load_script_from_string", "clear", "register_function", "assert_fact", "evaluate_bounded"]
    scns = []
    X, Y = V(0), V(1)
    for n in names:
        script = {"viabody/2": [clause(C("viabody", X, Y), or_(call(C(n, X)), or_(call(A(n)), or_(call(C(n, X, Y)), call(C(n, X, Y, A("z")))))))],
                  "viacall/1": [clause(C("viacall", X), conj(call(C("=", Y, C(n, X))), call(C("call", Y))))],
                  "marker/1": [clause(C("marker", A("m")))]}
        steps = [[{"op": "load", "e": 1, "script": "P", "ow": True}]]
        r = 1
        for k in range(0, 4):
            g = A(n) if k == 0 else C(n, *[V(i) for i in range(k)])
            steps.append([{"op": "solve", "e": 1, "r": r, "goal": g, "qnv": k, "k": 0}]); r += 1
        g = C(n, A("x"), lst([A("y")]))
        steps.append([{"op": "solve", "e": 1, "r": r, "goal": g, "qnv": 0, "k": 0}]); r += 1
        steps.append([{"op": "solve", "e": 1, "r": r, "goal": C("viabody", V(0), V(1)), "qnv": 2, "k": 0}]); r += 1
        steps.append([{"op": "solve", "e": 1, "r": r, "goal": C("viacall", V(0)), "qnv": 1, "k": 0}]); r += 1
        steps.append([{"op": "solve", "e": 1, "r": r, "goal": C("call", A(n), V(0)), "qnv": 1, "k": 0}]); r += 1
        # a dynamic fact under a reserved name is still just a fact
        steps.append([{"op": "assert", "e": 1, "term": C(n, A("fact")), "atEnd": True, "r": 0}])
        steps.append([{"op": "solve", "e": 1, "r": r, "goal": C(n, V(0)), "qnv": 1, "k": 0}]); r += 1
        steps.append([{"op": "solve", "e": 1, "r": r, "goal": C("marker", V(0)), "qnv": 1, "k": 0}]); r += 1
        scns.append({"scripts": {"P": script}, "steps": steps, "keys": [{"n": n, "k": 1}]})
    return scns


def load_env_probe(chk):
    """what does code loaded through load_script_from_string see?"""
    from .. import real
    for prepare in ("fresh", "after clear()", "after clear() twice", "after a load and clear()"):
        _probe_one(chk, real, prepare)


def _probe_one(chk, real, prepare):
    yp = real.YP()
    api = set(yp.eval_context.keys())
    if prepare == "after clear()":
        yp.clear()
    elif prepare == "after clear() twice":
        yp.clear(); yp.clear()
    elif prepare == "after a load and clear()":
        yp.load_script_from_string(real.compile_text("tmp(a).\n"))
        yp.clear()
    box = []
    yp.eval_context["verif_box"] = box
    # no builtin is available to the probe: it reaches its globals through a function object
    probe = "def verif_probe():\n    pass\nverif_box.append(verif_probe.__globals__)\nverif_box.append(__builtins__)\n"
    try:
        yp.load_script_from_string(probe)
    except Exception as e:
        chk.violation({"kind": "loadenv", "detail": "probe could not be loaded: %s" % type(e).__name__, "family": "load-env", "features": {"op": "load", "family": "load-env"}})
        return
    seen = set(box[0].keys()) - {"verif_box", "verif_probe"}
    extra = seen - api
    chk.evaluations += 1
    chk.validated_traces += 1
    if extra or box[1] != {}:
        chk.violation({"kind": "loadenv", "detail": "%s: loaded code sees %s, __builtins__ = %s" % (prepare, sorted(extra), repr(box[1])[:60]), "family": "load-env",
                       "scenario": {"globals": sorted(seen)}, "features": {"op": "load", "family": "load-env"}})
    if prepare == "fresh":
        chk.add_sample({"load_env_globals": sorted(seen), "builtins": repr(box[1])[:40]})


def run(tier, seed):
    chk = c11.run_emitted("C12", "C12", tier, seed, extra_sources=hostile_sources())
    chk.machine_family("reserved-and-hostile-names", runtime_scenarios(), features=features)
    if not chk.events.get("DoCallReserved"):
        chk.machinery_errors.append("vacuity: DoCallReserved never taken")
    load_env_probe(chk)
    chk.assumptions = ["Python's semantics for the whitelisted fragment: code inside it can reach nothing but the names it reads",
                       "backslashes other than \\' inside quoted atoms are outside the documented literal syntax and not generated"]
    return chk.finish(rule="one evaluation per source program / behaviour; non-trivial = accepted by the compiler or answered")
