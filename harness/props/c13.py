"""C13 - a stored fact is an independent copy of the asserted term.

spec/YP.tla: DoAsserta/z and the API action `assert` store Canon(Resolve(term)) (a resolved copy
with fact-local variables), every use renames the fact apart (DoCallFacts, DoRetractNext).
Enumerated: term shapes x binding history of their variables (bound before directly / through a
chain / inside a structure, bound after the assert, unbound, backtracked over) x later uses (ground
match, ground mismatch, partial, variable; two uses in one body; a use while the asserting clause
is still active; assert_fact from Python with live variables of a suspended query)."""
import itertools
import random

from ..core import Check
from ..terms import A, I, V, C, NIL, lst, clause, call, and_, or_, conj, TRUE, FAIL
from .. import gen
from .c05 import features

KEYS = [{"n": "p", "k": 1}, {"n": "p", "k": 2}] + gen.DYNKEYS


def shapes():
    X, Y = V(0), V(1)
    return [("X", X), ("f(X)", C("f", X)), ("f(X,Y)", C("f", X, Y)), ("[X|Y]", lst([X], Y)), ("g(f(X))", C("g", C("f", X))), ("f(X,X)", C("f", X, X))]


def histories():
    """(name, goals before the assert, goals after the assert) for the variables X=V0, Y=V1; Z=V2 W=V3 helpers"""
    X, Y, Z, W = V(0), V(1), V(2), V(3)
    return [
        ("unbound", [], []),
        ("before-direct", [C("=", X, A("a"))], []),
        ("before-chain", [C("=", X, Z), C("=", Z, A("a"))], []),
        ("before-chain2", [C("=", Z, A("a")), C("=", X, Z)], []),
        ("before-struct", [C("=", X, C("h", Z)), C("=", Z, A("a"))], []),
        ("before-struct-late", [C("=", X, C("h", Z))], [C("=", Z, A("a"))]),
        ("after", [], [C("=", X, A("a"))]),
        ("after-both", [], [C("=", X, A("a")), C("=", Y, A("b"))]),
        ("alias-before", [C("=", X, Y)], []),
        ("alias-after", [], [C("=", X, Y)]),
    ]


def uses(shape_name):
    """queries against p/1 after the asserting query finished: (goal, qnv)"""
    a, b = A("a"), A("b")
    cand = [C("p", V(0)), C("p", a), C("p", C("f", a)), C("p", C("f", b)), C("p", C("f", V(0))), C("p", C("f", a, b)), C("p", C("f", b, b)),
            C("p", C("f", V(0), V(1))), C("p", C("f", V(0), a)), C("p", lst([a, b])), C("p", lst([V(0)], V(1))), C("p", C("g", C("f", b))),
            C("p", C("g", V(0))), C("p", C("f", C("h", a))), C("p", C("f", C("h", b))), C("p", C("h", b)), C("p", C("h", V(0))),
            C("p", C("f", C("h", a), C("h", b))), C("p", lst([C("h", b)], V(0)))]
    from ..terms import term_vars
    out = []
    for g in cand:
        vs = term_vars(g)
        out.append((g, (max(vs) + 1) if vs else 0))
    return out


def scenarios():
    scns = []
    for (sn, T), (hn, pre, post) in itertools.product(shapes(), histories()):
        for where in ("assertz", "asserta"):
            if where == "asserta" and hn not in ("unbound", "before-struct", "after"):
                continue
            body = conj(*([call(g) for g in pre] + [call(C(where, C("p", T)))] + [call(g) for g in post]))
            script = {"mk/0": [clause(A("mk"), body)],
                      # uses inside the asserting clause, while it is still active
                      "mkuse/2": [clause(C("mkuse", V(4), V(5)), conj(*([call(g) for g in pre] + [call(C(where, C("p", T))), call(C("p", V(4))), call(C("p", V(5)))] + [call(g) for g in post])))],
                      "twice/2": [clause(C("twice", V(0), V(1)), and_(call(C("p", V(0))), call(C("p", V(1)))))],
                      "back/0": [clause(A("back"), conj(or_(call(C("=", V(0), A("a"))), call(C("=", V(0), A("b")))), call(C("assertz", C("p", T))), FAIL))]}
            base = [[{"op": "load", "e": 1, "script": "P", "ow": True}]]
            # 1. assert, then independent uses
            steps = list(base) + [[{"op": "solve", "e": 1, "r": 1, "goal": A("mk"), "qnv": 0, "k": 0}]]
            for i, (g, qnv) in enumerate(uses(sn)):
                steps.append([{"op": "solve", "e": 1, "r": i + 2, "goal": g, "qnv": qnv, "k": 0}])
            steps.append([{"op": "solve", "e": 1, "r": 90, "goal": C("twice", C("f", A("a")), C("f", A("b"))), "qnv": 0, "k": 0}])
            steps.append([{"op": "solve", "e": 1, "r": 91, "goal": C("twice", A("a"), A("b")), "qnv": 0, "k": 0}])
            steps.append([{"op": "solve", "e": 1, "r": 92, "goal": C("twice", V(0), V(1)), "qnv": 2, "k": 0}])
            scns.append({"scripts": {"P": script}, "steps": steps, "keys": KEYS})
            # 2. uses inside the asserting clause
            for (ga, gb) in [(A("a"), A("b")), (C("f", A("a")), C("f", A("b"))), (V(0), V(1)), (C("f", V(0)), A("zz"))]:
                from ..terms import term_vars
                goal = C("mkuse", ga, gb)
                vs = term_vars(goal)
                scns.append({"scripts": {"P": script}, "keys": KEYS,
                             "steps": list(base) + [[{"op": "solve", "e": 1, "r": 1, "goal": goal, "qnv": (max(vs) + 1) if vs else 0, "k": 0}],
                                                    [{"op": "solve", "e": 1, "r": 2, "goal": C("p", V(0)), "qnv": 1, "k": 0}]]})
            # 3. backtracked over
            scns.append({"scripts": {"P": script}, "keys": KEYS,
                         "steps": list(base) + [[{"op": "solve", "e": 1, "r": 1, "goal": A("back"), "qnv": 0, "k": 0}],
                                                [{"op": "solve", "e": 1, "r": 2, "goal": C("p", V(0)), "qnv": 1, "k": 0}],
                                                [{"op": "solve", "e": 1, "r": 3, "goal": C("twice", V(0), V(1)), "qnv": 2, "k": 0}]]})
    # 4. assert_fact from Python with live variables of a suspended query, then the query moves on / ends
    script = {"b/2": [clause(C("b", A("a"), C("h", V(0))), call(C("=", V(0), I(1)))), clause(C("b", A("b"), C("h", I(2))))],
              # variables bound through chains of two and three links, in both directions
              "ch/2": [clause(C("ch", V(0), V(1)), conj(call(C("=", V(0), V(1))), call(C("=", V(1), V(2))), call(C("=", V(2), A("tom"))))),
                       clause(C("ch", V(0), V(1)), conj(call(C("=", V(2), V(1))), call(C("=", V(0), V(2))), call(C("=", V(1), C("k", V(3)))), call(C("=", V(3), A("z")))))]}
    for T in (C("p", V(0)), C("p", C("f", V(0), V(1))), C("p", V(1), V(0)), C("p", lst([V(0)], V(1)))):
        for atEnd in (True, False):
            steps = [[{"op": "load", "e": 1, "script": "P", "ow": True}],
                     [{"op": "query", "e": 1, "r": 1, "goal": C("b", V(0), V(1)), "qnv": 2}, {"op": "query", "e": 1, "r": 1, "goal": C("ch", V(0), V(1)), "qnv": 2}],
                     [{"op": "assert", "e": 1, "term": T, "atEnd": atEnd, "r": 1}, {"op": "next", "r": 1}],
                     [{"op": "assert", "e": 1, "term": T, "atEnd": atEnd, "r": 1}, {"op": "next", "r": 1}],
                     [{"op": "assert", "e": 1, "term": T, "atEnd": atEnd, "r": 1}, {"op": "next", "r": 1}, {"op": "close", "r": 1, "how": "close"}],
                     [{"op": "next", "r": 1}, {"op": "close", "r": 1, "how": "drop"}],
                     [{"op": "solve", "e": 1, "r": 2, "goal": C("p", V(0)), "qnv": 1, "k": 0}, {"op": "solve", "e": 1, "r": 2, "goal": C("p", V(0), V(1)), "qnv": 2, "k": 0}],
                     [{"op": "solve", "e": 1, "r": 3, "goal": C("p", C("f", A("x"), A("y"))), "qnv": 0, "k": 0}, {"op": "solve", "e": 1, "r": 3, "goal": C("p", A("x"), A("y")), "qnv": 0, "k": 0},
                      {"op": "solve", "e": 1, "r": 3, "goal": C("p", A("x")), "qnv": 0, "k": 0}]]
            scns.append({"scripts": {"P": script}, "steps": steps, "keys": KEYS})
    return scns


def reuse_scenarios():
    """a use of a non-ground fact is abandoned (or runs out) while the consumer keeps what it returned;
    then the same fact is used again with its variables bound: what the first use returned must not move"""
    a, b = A("a"), A("b")
    facts = [C("p", C("f", V(0))), C("p", V(0)), C("p", C("g", V(0), V(1))), C("p", lst([V(0)], V(1)))]
    firsts = [(C("p", V(0)), 1), (C("p", C("f", V(0))), 1), (C("p", C("g", V(0), V(1))), 2)]
    seconds = [(C("p", C("f", a)), 0), (C("p", a), 0), (C("p", C("g", a, b)), 0), (C("p", lst([a, b])), 0), (C("p", V(0)), 1), (C("p", C("f", C("h", V(0)))), 1)]
    scns = []
    for sub in ([0], [0, 1], [2, 3], [1, 0, 2]):
        steps = [[{"op": "assert", "e": 1, "term": facts[i], "atEnd": True, "r": 0}] for i in sub]
        steps.append([{"op": "query", "e": 1, "r": 1, "goal": g, "qnv": n} for g, n in firsts])
        steps.append([{"op": "next", "r": 1}])
        steps.append([{"op": "next", "r": 1}, {"op": "close", "r": 1, "how": "close"}, {"op": "close", "r": 1, "how": "drop"}, {"op": "close", "r": 1, "how": "raise"}])
        steps.append([{"op": "query", "e": 1, "r": 2, "goal": g, "qnv": n} for g, n in seconds])
        steps.append([{"op": "next", "r": 2}])
        steps.append([{"op": "next", "r": 2}, {"op": "close", "r": 1, "how": "close"}, {"op": "query", "e": 1, "r": 3, "goal": C("p", C("f", b)), "qnv": 0}])
        steps.append([{"op": "next", "r": 2}, {"op": "next", "r": 3}, {"op": "close", "r": 2, "how": "drop"}])
        steps.append([{"op": "solve", "e": 1, "r": 4, "goal": C("p", V(0)), "qnv": 1, "k": 0}])
        scns.append({"scripts": {}, "steps": steps, "keys": KEYS})
    # an enumeration is suspended; a retract with a bound pattern is suspended on a non-ground fact the enumeration
    # has yet to visit (logical update view: it still visits it); the enumeration's use of that fact has variables
    # of its own
    for pat in (C("p", a), C("p", C("f", a)), C("p", V(0))):
        for fact in (C("p", V(0)), C("p", C("f", V(0)))):
            steps = [[{"op": "assert", "e": 1, "term": C("p", A("c0")), "atEnd": True, "r": 0}], [{"op": "assert", "e": 1, "term": fact, "atEnd": True, "r": 0}],
                     [{"op": "assert", "e": 1, "term": C("p", A("c9")), "atEnd": True, "r": 0}],
                     [{"op": "query", "e": 1, "r": 1, "goal": C("p", V(0)), "qnv": 1}], [{"op": "next", "r": 1}],
                     [{"op": "query", "e": 1, "r": 2, "goal": C("retract", pat), "qnv": 1 if pat["a"][0]["t"] == "v" else 0}], [{"op": "next", "r": 2}],
                     [{"op": "next", "r": 1}, {"op": "next", "r": 2}], [{"op": "next", "r": 1}, {"op": "close", "r": 2, "how": "close"}], [{"op": "next", "r": 1}],
                     [{"op": "solve", "e": 1, "r": 3, "goal": C("p", V(0)), "qnv": 1, "k": 0}]]
            scns.append({"scripts": {}, "steps": steps, "keys": KEYS})
    return scns


def across_clear_scenarios():
    """variables the consumer created before a clear() and keeps using, asserted together with variables created
    afterwards: a stored fact keeps them apart exactly as the asserted term did"""
    X, Y, Z = V(0), V(1), V(2)
    scns = []
    for nclear in (1, 2):
        for first_goal, q1 in ((C("=", V(0), V(0)), 1), (C("=", C("f", V(0), V(1)), C("f", V(1), V(0))), 2)):
            for term in (C("pair", V(0), V(5)), C("pair", V(5), V(0)), C("tri", V(0), V(5), V(6)), C("pair", C("g", V(0)), lst([V(5)], V(6)))):
                steps = [[{"op": "clear", "e": 1}]] * (nclear - 1)
                steps = steps + [[{"op": "clear", "e": 1}], [{"op": "solve", "e": 1, "r": 1, "goal": first_goal, "qnv": q1, "k": 0}], [{"op": "clear", "e": 1}],
                                 [{"op": "assert", "e": 1, "term": term, "atEnd": True, "r": 1}]]
                k = len(term["a"])
                steps.append([{"op": "solve", "e": 1, "r": 2, "goal": C(term["n"], *[V(i) for i in range(k)]), "qnv": k, "k": 0}])
                steps.append([{"op": "solve", "e": 1, "r": 3, "goal": C(term["n"], *[I(i + 1) for i in range(k)]), "qnv": 0, "k": 0}])
                steps.append([{"op": "solve", "e": 1, "r": 4, "goal": C(term["n"], *([C("g", A("a"))] + [V(i) for i in range(k - 1)])), "qnv": k - 1, "k": 0}])
                scns.append({"scripts": {}, "steps": steps, "keys": []})
    # the same from compiled code: the clause's own fresh variable meets the caller's variable
    script = {"init/1": [clause(C("init", V(0)), call(C("assertz", C("slot", V(0), V(900)))))],
              "init2/2": [clause(C("init2", V(0), V(1)), conj(call(C("=", V(2), C("h", V(0), V(3)))), call(C("assertz", C("slot", V(2), V(1))))))]}
    for g, q in ((C("init", V(0)), 1), (C("init2", V(0), V(1)), 2)):
        steps = [[{"op": "clear", "e": 1}], [{"op": "load", "e": 1, "script": "P", "ow": True}], [{"op": "solve", "e": 1, "r": 1, "goal": g, "qnv": q, "k": 0}],
                 [{"op": "solve", "e": 1, "r": 2, "goal": C("slot", V(0), V(1)), "qnv": 2, "k": 0}], [{"op": "solve", "e": 1, "r": 3, "goal": C("slot", A("a"), A("b")), "qnv": 0, "k": 0}],
                 [{"op": "solve", "e": 1, "r": 4, "goal": C("slot", C("h", A("a"), A("b")), A("c")), "qnv": 0, "k": 0}]]
        scns.append({"scripts": {"P": script}, "steps": steps, "keys": []})
    return scns


def aborted_copy_scenarios():
    """a use of a fact that is cut short inside the engine (evaluate_bounded swallows the RecursionError of a
    deep renaming), then two simultaneous uses of the same fact: each still gets variables of its own"""
    deep = lst([I(i) for i in range(105)])
    scns = []
    for fact in (C("p", V(0), deep), C("p", V(0), C("k", V(1), deep, V(0))), C("p", C("g", V(0), V(1)), deep)):
        t1 = [{"op": "query", "e": 1, "r": 1, "goal": C("p", V(0), V(1)), "qnv": 2, "t": 1}, {"op": "next", "r": 1, "t": 1}, {"op": "next", "r": 1, "t": 1}]
        t2 = [{"op": "query", "e": 1, "r": 2, "goal": C("p", A("a"), V(0)), "qnv": 1, "t": 2}, {"op": "next", "r": 2, "t": 2}, {"op": "close", "r": 2, "how": "close", "t": 2},
              {"op": "query", "e": 1, "r": 3, "goal": C("p", C("g", A("b"), A("c")), V(0)), "qnv": 1, "t": 2}, {"op": "next", "r": 3, "t": 2}]
        for lim in (None, 60, 120):
            via = {"exc": "Exception", "prefix": True}
            if lim:
                via["limit"] = lim
            steps = [[{"op": "assert", "e": 1, "term": fact, "atEnd": True, "r": 0, "t": 3}],
                     [{"op": "solve", "e": 1, "r": 9, "goal": C("p", V(0), V(1)), "qnv": 2, "k": 0, "via": via, "t": 3}]]
            scns.append({"engines": 1, "scripts": {}, "keys": [], "steps": steps, "threads": [t1, t2]})
    return scns


def run(tier, seed):
    chk = Check("C13", tier, seed)
    rnd = random.Random(seed)
    chk.machine_family("assert-histories", scenarios(), features=features)
    chk.machine_family("reuse-after-abandoned-use", reuse_scenarios(), features=features)
    chk.machine_family("variables-that-outlive-clear", across_clear_scenarios(), {"must_complete": True}, features=features)
    chk.machine_family("two-uses-after-an-aborted-renaming", aborted_copy_scenarios(), {"budget_extra": 20000000}, features=features, max_steps=8000)
    n = 1200 if tier == "quick" else 15000
    rs = [gen.random_scenario(rnd, {"db", "dyn", "ctl", "rich"}, nclauses=3, depth=rnd.choice([2, 3])) for _ in range(n)]
    for i in range(0, n, 4000):
        chk.machine_family("random-db-%d" % (i // 4000), rs[i:i + 4000], features=features)
    need = ["DoAssertz", "DoAsserta", "DoCallFacts"]
    missing = [e for e in need if not chk.events.get(e)]
    if missing:
        chk.machinery_errors.append("vacuity: spec steps never taken: %s" % missing)
    # random API sessions (loads, registrations, asserts through both routes, queries advanced step by
    # step and abandoned between updates, clears) over unusual term shapes; decided by the machine
    from .. import gen as _gen
    _rnd = random.Random(seed * 7919 + 13)
    _ss = [_gen.api_session(_rnd, engines=1, length=_rnd.randint(6, 14)) for _ in range(250 if tier == "quick" else 4000)]
    for _i in range(0, len(_ss), 2500):
        chk.machine_family("api-sessions-%d" % (_i // 2500), _ss[_i:_i + 2500], features=features)
    chk.assumptions = ["asserting a non-callable term is unspecified and cut"]
    return chk.finish()
