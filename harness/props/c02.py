"""C02 - unification computes a most general unifier, or fails.

spec/UnifyGen.tla is an implementation-shaped model of engine.unify (binding cells, generator
objects with program counters, try/finally, unify_arrays holding its sub-generators open); TLC checks
on it, for all ordered pairs of terms of depth <= 1 over a vocabulary x stacks of earlier still-active
unifications: YieldIffUnifiable, AtYieldBothSidesEqual, AtYieldIsMGU (against Terms!MGU),
AtMostOneYield, AllUnboundAfterEnd (exhaustion and close at the yield), GetValueIsResolve, and of the
reference itself RefSymmetric and RefIsUnifier.  Every start state is printed with its predicted
outcome and replayed on the real unify with real Variable/Atom/Functor objects, the earlier
unifications held open as real suspended generators: yields or not, canonical image of both terms and
of X, Y, Z at the yield, second next() stops, bindings restored after exhaustion / close / drop."""
import json
import multiprocessing
import os
import random

from ..core import Check
from .. import tlc


def _replay_chunk(chunk):
    from .. import real
    engine = real.engine
    out = []
    import sys
    from .. import replay
    sys.setrecursionlimit(5000)
    replay.BUDGET.install()
    for rec, c15 in chunk:
        try:
            replay.BUDGET.arm(200000)
            try:
                out.append(_replay(real, engine, rec, c15))
            finally:
                replay.BUDGET.disarm()
        except replay.BudgetExceeded:
            out.append({"kind": "nontermination", "detail": "unify/get_value did not finish within 200000 calls"})
        except Exception as e:
            out.append({"kind": "exception", "detail": "%s: %s" % (type(e).__name__, str(e)[:100])})
    return out


def _replay(real, engine, rec, c15):
    yp = real.YP()
    vs = [yp.variable() for _ in range(3)]
    env = {i: v for i, v in enumerate(vs)}
    held = []
    try:
        for a, b in rec["prior"]:
            g = iter(engine.unify(real.build(yp, a, env), real.build(yp, b, env)))
            try:
                next(g)
            except StopIteration:
                return {"kind": "prior", "detail": "an earlier unification of the stack did not succeed"}
            held.append(g)
        b0 = sorted(i for i, v in enumerate(vs) if v._is_bound)
        if b0 != sorted(rec["bound0"]):
            return {"kind": "bound0", "detail": "bound set after the stack differs", "expected": sorted(rec["bound0"]), "observed": b0}
        for variant in ("exhaust", "close", "drop"):
            t1 = real.build(yp, rec["t1"], env)
            t2 = real.build(yp, rec["t2"], env)
            g = iter(engine.unify(t1, t2))
            try:
                next(g)
                y = True
            except StopIteration:
                y = False
            if y != rec["y"]:
                return {"kind": "yield", "detail": "yields=%s, specified %s" % (y, rec["y"]), "variant": variant}
            saved = None
            if y:
                at = real.project_tuple([t1, t2] + vs)
                if json.dumps(at, sort_keys=True) != json.dumps(rec["at"], sort_keys=True):
                    return {"kind": "at-yield", "detail": "terms at the yield differ from the most general unifier", "expected": rec["at"], "observed": at, "variant": variant}
                if True:
                    gv = [engine.get_value(v) for v in vs]
                    raw = real.project_raw_tuple(gv)
                    for i in range(3):
                        exp = rec["at"][2 + i]
                        if real.is_ground_image(exp) and json.dumps(raw[i], sort_keys=True) != json.dumps(exp, sort_keys=True):
                            return {"kind": "get_value", "detail": "get_value at the yield is not the fully dereferenced term", "expected": exp, "observed": raw[i]}
                    saved = (gv, rec["at"][2:])
                if variant == "exhaust":
                    try:
                        next(g)
                        return {"kind": "second-yield", "detail": "unify yielded twice"}
                    except StopIteration:
                        pass
                elif variant == "close":
                    g.close()
                else:
                    del g
            b1 = sorted(i for i, v in enumerate(vs) if v._is_bound)
            if b1 != b0:
                return {"kind": "not-restored", "detail": "bindings after %s differ from before the unification" % variant, "expected": b0, "observed": b1, "variant": variant}
            if saved:
                for i in range(3):
                    exp = saved[1][i]
                    if real.is_ground_image(exp):
                        now = real.project_raw(saved[0][i], {})
                        if json.dumps(now, sort_keys=True) != json.dumps(exp, sort_keys=True):
                            return {"kind": "stale", "detail": "a value saved at the yield changed after %s" % variant, "expected": exp, "observed": now}
        # the same unification with the atoms of t2 taken from a SECOND engine (atoms of one name unify
        # across engines; variables are shared through env)
        yp2 = real.YP()
        t1 = real.build(yp, rec["t1"], env)
        t2 = real.build(yp2, rec["t2"], env)
        g = iter(engine.unify(t1, t2))
        try:
            next(g)
            y = True
        except StopIteration:
            y = False
        if y != rec["y"]:
            return {"kind": "cross-engine", "detail": "with the second term's atoms from another engine: yields=%s, specified %s" % (y, rec["y"])}
        if y:
            at = real.project_tuple([t1, t2] + vs)
            if json.dumps(at, sort_keys=True) != json.dumps(rec["at"], sort_keys=True):
                return {"kind": "cross-engine", "detail": "with the second term's atoms from another engine the unifier differs", "expected": rec["at"], "observed": at}
        g.close()
        # two unifications created before either is advanced (the objects returned by unify must not
        # share state): unify(t1,t2) and unify(t2,t1), then each run to its end
        ga = iter(engine.unify(real.build(yp, rec["t1"], env), real.build(yp, rec["t2"], env)))
        gb = iter(engine.unify(real.build(yp, rec["t2"], env), real.build(yp, rec["t1"], env)))
        for which, gg in (("first", ga), ("second", gb)):
            n = 0
            for _ in gg:
                n += 1
                if n > 2:
                    break
            if n != (1 if rec["y"] else 0):
                return {"kind": "created-together", "detail": "of two unifications created before either was advanced, the %s yielded %d times, specified %d" % (which, n, 1 if rec["y"] else 0)}
        # a unification created while the variables are still unbound and first advanced while the other one
        # is suspended at its answer (t1 and t2 are equal then: one answer, nothing further bound)
        ta, tb = real.build(yp, rec["t1"], env), real.build(yp, rec["t2"], env)
        ga = iter(engine.unify(ta, tb))
        gb = iter(engine.unify(real.build(yp, rec["t2"], env), real.build(yp, rec["t1"], env)))
        # ... and unifications of each variable with a new atom, created now, advanced while ga is at its answer:
        # they succeed exactly for the variables that answer leaves free, and ending them gives the answer back
        gz = [iter(engine.unify(vs[i], yp.atom("created_early%d" % i))) for i in range(3)]
        gz += [iter(engine.unify(yp.atom("created_early%d" % i), vs[i])) for i in range(3)]
        try:
            try:
                next(ga)
                ya = True
            except StopIteration:
                ya = False
            if ya and rec["y"]:
                for j, g in enumerate(gz):
                    i = j % 3
                    n = 0
                    for _ in g:
                        n += 1
                        break
                    g.close()
                    want = 1 if rec["at"][2 + i]["t"] == "v" else 0
                    if n != want:
                        return {"kind": "created-before-started-under", "detail": "a unification of variable %d with a new atom, created before and advanced while another unification is at its answer, yielded %d times, specified %d" % (i, n, want),
                                "expected": rec["at"][2 + i]}
                    now = real.project_tuple([ta, tb] + vs)
                    if json.dumps(now, sort_keys=True) != json.dumps(rec["at"], sort_keys=True):
                        return {"kind": "created-before-started-under", "detail": "ending a unification that was advanced under another one's answer changed that answer", "expected": rec["at"], "observed": now}
            nb = 0
            at = None
            for _ in gb:
                nb += 1
                if nb == 1:
                    at = real.project_tuple([ta, tb] + vs)
                if nb > 2:
                    break
            if ya != rec["y"] or nb != (1 if rec["y"] else 0):
                return {"kind": "created-before-started-under", "detail": "a unification created before and advanced while another one of the same terms is at its answer yielded %d times, specified %d" % (nb, 1 if rec["y"] else 0)}
            if rec["y"] and json.dumps(at, sort_keys=True) != json.dumps(rec["at"], sort_keys=True):
                return {"kind": "created-before-started-under", "detail": "unifying terms that are already equal bound something", "expected": rec["at"], "observed": at}
        finally:
            for g in gz:
                g.close()
            gb.close()
            ga.close()
        b1 = sorted(i for i, v in enumerate(vs) if v._is_bound)
        if b1 != b0:
            return {"kind": "not-restored", "detail": "bindings after nested unifications differ from before", "expected": b0, "observed": b1}
        # follow-up: after the unification has been undone (three times), every variable must again be
        # exactly what the stack alone makes it: unify it with a new atom and look at all three
        pv = rec["pv"]
        for i in range(3):
            zz = yp.atom("zz%d" % i)
            g = iter(engine.unify(vs[i], zz))
            try:
                next(g)
                y = True
            except StopIteration:
                y = False
            want = pv[i]["t"] == "v"
            if y != want:
                return {"kind": "follow-up", "detail": "after undoing the unification, variable %d %s the new atom although the stack alone leaves it %s" %
                        (i, "unifies with" if y else "does not unify with", "free" if want else "bound"), "expected": pv[i]}
            if y:
                now = real.project_tuple(vs)
                exp = [({"t": "a", "n": "zz%d" % i} if (p["t"] == "v" and p["id"] == pv[i]["id"]) else p) for p in pv]
                # renumber the remaining variables canonically
                seen = {}
                def ren(t):
                    if t["t"] == "v":
                        return {"t": "v", "id": seen.setdefault(t["id"], len(seen))}
                    if t["t"] == "c":
                        return {"t": "c", "n": t["n"], "a": [ren(a) for a in t["a"]]}
                    return t
                def subst(t):
                    if t["t"] == "v" and t["id"] == pv[i]["id"]:
                        return {"t": "a", "n": "zz%d" % i}
                    if t["t"] == "c":
                        return {"t": "c", "n": t["n"], "a": [subst(a) for a in t["a"]]}
                    return t
                exp = [ren(subst(p)) for p in pv]
                if json.dumps(now, sort_keys=True) != json.dumps(exp, sort_keys=True):
                    return {"kind": "follow-up", "detail": "after undoing the unification, binding variable %d shows other values than the stack alone implies" % i,
                            "expected": exp, "observed": now}
                engine.get_value(vs[0]); engine.get_value(vs[1]); engine.get_value(vs[2])
                g.close()
    finally:
        for g in reversed(held):
            g.close()
    if any(v._is_bound for v in vs):
        return {"kind": "not-restored", "detail": "variables still bound after the whole stack was closed"}
    return None


def write_cfg(name, deep, stacks, shard, shards, emit=True):
    p = os.path.join(tlc.SPEC, name)
    invs = ["YieldIffUnifiable", "AtYieldBothSidesEqual", "AtYieldIsMGU", "AtMostOneYield", "AllUnboundAfterEnd", "GetValueIsResolve",
            "RefSymmetric", "RefIsUnifier"] + (["Emit"] if emit else [])
    with open(p, "w") as f:
        f.write("SPECIFICATION Spec\nCONSTANTS GetValueDeep = %s\nStacks = \"%s\"\nShard = %d\nShards = %d\n%sCHECK_DEADLOCK FALSE\n" %
                ("TRUE" if deep else "FALSE", stacks, shard, shards, "".join("INVARIANT %s\n" % i for i in invs)))
    return p, invs


def run_unify(prop, tier, seed, c15=False):
    chk = Check(prop, tier, seed)
    unify_family(chk, tier, seed, c15)
    chk.exhaustive = True
    chk.assumptions = ["pairs whose solution would need a cyclic term are skipped (unspecified)", "Python constants other than int are not generated"]
    return chk


def unify_family(chk, tier, seed, c15=False):
    pid = os.getpid()
    stacks, shards = ("quick", 1) if tier == "quick" else ("all", 1)
    shard = seed % shards
    cfg, invs = write_cfg("UnifyGen-%d.cfg" % pid, True, stacks, shard, shards)
    try:
        res = tlc.run("UnifyGen", os.path.basename(cfg), tag="ug-%d" % pid)
    finally:
        os.unlink(cfg)
    chk.add_tlc(res, invs[:-1])
    recs = res.records
    chunks = [[(r, c15) for r in recs[i:i + 400]] for i in range(0, len(recs), 400)]
    from .. import replay as _rp
    outs = _rp.pool_map(_replay_chunk, chunks)
    flat = [x for o in outs for x in o]
    ny = 0
    for rec, v in zip(recs, flat):
        chk.evaluations += 1
        chk.replayed += 1
        if rec["y"]:
            ny += 1
            chk.nontrivial.add(json.dumps([rec["t1"], rec["t2"], rec["prior"]], sort_keys=True))
        if v:
            v.update(family="unify-start-states", scenario={"t1": rec["t1"], "t2": rec["t2"], "prior": rec["prior"]}, record=rec,
                     features={"op": "unify", "family": "unify-start-states", "vkind": v["kind"]})
            chk.violation(v)
    chk.families.append({"family": "unify-start-states", "start_states": len(recs), "unifiable": ny, "stacks": stacks, "shard": "%d/%d" % (shard, shards)})
    if recs:
        chk.add_sample(recs[len(recs) // 3])
        chk.add_sample(recs[2 * len(recs) // 3])


def run(tier, seed):
    chk = run_unify("C02", tier, seed)
    # sizes above the enumerated term pairs (arity beyond 256, long lists, deep terms, big integers): the
    # machine's `=` on the query route
    from .. import gen
    SG = gen.scale_groups()
    uni = [s for s in gen.scale_scenarios() if s["steps"][-1][0].get("goal", {}).get("n") in ("=", "\\=")]
    chk.machine_family("scale-unify", SG["arity"] + uni, {"budget_extra": 20000000, "must_complete": True}, max_steps=30000)
    # compounds that share the list constructor's NAME but not its arity, and atoms that share a functor's name
    from ..terms import A, I, V, C, NIL, lst
    a, b, c, d = A("a"), A("b"), A("c"), A("d")
    odd = [(C("=", C(".", a, b, c), C(".", a, b, d)), 0), (C("=", C(".", a, b, c), C(".", a, b)), 0), (C("=", C(".", a, b), C(".", a, b, c)), 0),
           (C("=", C(".", a, b, V(0)), C(".", a, b, c)), 1), (C("=", C(".", V(0)), C(".", a)), 1), (C("=", C(".", a, lst([b]), c), C(".", a, lst([b]), V(0))), 1),
           (C("=", lst([a, b]), C(".", a, lst([b]), NIL)), 0), (C("\\=", C(".", a, b, c), C(".", a, b, d)), 0), (C("=", C(".", a, b, c, d), C(".", V(0), V(1), V(2), V(3))), 4),
           (C("=", A("."), C(".", a, b)), 0), (C("=", C("f"), A("f")), 0), (C("=", C("[]", a), NIL), 0), (C("=", C(".", V(0), V(1), V(0)), C(".", a, V(0), V(1))), 2)]
    chk.machine_family("list-constructor-name-other-arity", [{"scripts": {}, "keys": [], "steps": [[{"op": "solve", "e": 1, "r": 1, "goal": g, "qnv": q, "k": 0}]]} for g, q in odd],
                       {"must_complete": True})
    return chk.finish(rule="one evaluation per (ordered term pair, stack of earlier unifications); each is run three ways (exhaust, close, drop); non-trivial = unifiable")
