"""C15 - answers are fully dereferenced and stay valid after backtracking.

The machine's observation at an answer is Resolve (every binding followed at every depth) and
Terms!ToPy of it.  On the code the driver reads, at every answer, engine.get_value and
engine.to_python of every query variable (not its own walker), saves the get_value results,
and after the query has ended compares the saved values again: a ground answer must still be
the same term, with no variable inside.  Enumerated: all orders in which a variable and the
variables inside its value get bound (outer first / inner first / chains), read directly, through
findall, and through assertz followed by a later query."""
import itertools
import random

from ..core import Check
from ..terms import A, I, V, C, NIL, lst, clause, call, and_, or_, conj, TRUE
from .. import gen
from .c05 import features

OPTS = {"c15": True}


def binding_programs():
    """clauses p_k(X) whose body binds X, and the variables inside its value, in every order"""
    X, Y, Z, W = V(0), V(1), V(2), V(3)
    eqs_sets = [
        [C("=", X, C("g", Y)), C("=", Y, I(1))],
        [C("=", X, C("g", Y, Z)), C("=", Y, A("a")), C("=", Z, C("h", W)), C("=", W, A("b"))],
        [C("=", X, Y), C("=", Y, Z), C("=", Z, C("f", A("a")))],
        [C("=", X, lst([Y, Z])), C("=", Y, I(1)), C("=", Z, lst([W])), C("=", W, A("c"))],
        [C("=", X, lst([Y], Z)), C("=", Z, lst([W])), C("=", Y, A("a")), C("=", W, A("b"))],
        [C("=", X, C("f", Y)), C("=", Y, Z), C("=", Z, C("g", W)), C("=", W, X if False else A("k"))],
        [C("=", C("p", X, Y), C("p", C("q", Y), A("e")))],
        [C("=", X, C("g", Y)), C("=", Y, Z)],                      # stays non-ground
        # a list cell whose tail is not a list: a compound with variables bound afterwards, another cell ending in one
        [C("=", X, lst([A("k")], Y)), C("=", Y, C("range", Z, W)), C("=", Z, A("one")), C("=", W, A("nine"))],
        [C("=", X, lst([A("k"), Y], Z)), C("=", Z, C("t", Y, W)), C("=", Y, I(2)), C("=", W, lst([Y]))],
    ]
    progs = []
    for es in eqs_sets:
        perms = list(itertools.permutations(es)) if len(es) <= 3 else list(itertools.permutations(es))[:24]
        for pm in perms:
            progs.append(conj(*[call(e) for e in pm]))
    return progs


def scenarios():
    scns = []
    X, L = V(0), V(4)
    for i, body in enumerate(binding_programs()):
        script = {"p/1": [clause(C("p", X), body)],
                  "viafindall/1": [clause(C("viafindall", V(0)), call(C("findall", V(1), C("p", V(1)), V(0))))],
                  "viafindall2/1": [clause(C("viafindall2", V(0)), call(C("findall", C("w", V(1), V(1)), C("p", V(1)), V(0))))],
                  "viaassert/1": [clause(C("viaassert", V(0)), conj(call(C("p", V(1))), call(C("assertz", C("st", V(1)))), call(C("st", V(0)))))],
                  "multi/1": [clause(C("multi", V(0)), or_(call(C("p", V(0))), or_(call(C("=", V(0), A("other"))), call(C("p", V(0))))))],
                  }
        steps = [[{"op": "load", "e": 1, "script": "P", "ow": True}]]
        for j, g in enumerate([C("p", V(0)), C("viafindall", V(0)), C("viafindall2", V(0)), C("multi", V(0)), C("viaassert", V(0)), C("st", V(0))]):
            steps.append([{"op": "solve", "e": 1, "r": j + 1, "goal": g, "qnv": 1, "k": 0}])
        scns.append({"scripts": {"P": script}, "steps": steps, "py": True, "keys": [{"n": "st", "k": 1}]})
    return scns


def raw_arg_scenarios():
    """the consumer passes structures containing variables and reads them back with to_python /
    get_value at the answers: tails and inner variables bound after the structure was built"""
    X, Y, Z, W = V(0), V(1), V(2), V(3)
    script = {
        "fill/1": [clause(C("fill", lst([V(900)], V(0))), call(C("=", V(0), lst([A("b"), A("c")])))),
                   clause(C("fill", lst([V(900)], V(0))), conj(call(C("=", V(0), V(1))), call(C("=", V(1), lst([A("d")], V(2)))), call(C("=", V(2), NIL))))],
        "inner/1": [clause(C("inner", C("f", C("g", V(0)))), call(C("n", V(0))))],
        "n/1": [clause(C("n", A("k1"))), clause(C("n", A("k2")))],
        "two/2": [clause(C("two", lst([V(0), V(1)]), C("h", I(1), lst([A("k"), V(1)]))), conj(call(C("n", V(1))), call(C("=", V(0), C("p", V(1))))))],
    }
    goals = [(C("fill", lst([A("a")], V(0))), 1), (C("fill", lst([A("a"), V(1)], V(0))), 2), (C("inner", C("f", C("g", V(0)))), 1), (C("inner", C("f", V(0))), 1),
             (C("two", lst([V(0), V(1)]), C("h", V(2), lst([A("k")], V(3)))), 4), (C("two", V(0), V(1)), 2)]
    scns = []
    for g, qnv in goals:
        steps = [[{"op": "load", "e": 1, "script": "P", "ow": True}], [{"op": "query", "e": 1, "r": 1, "goal": g, "qnv": qnv}],
                 [{"op": "next", "r": 1}], [{"op": "next", "r": 1}], [{"op": "next", "r": 1}], [{"op": "close", "r": 1, "how": "close"}]]
        scns.append({"scripts": {"P": script}, "steps": steps, "py": True, "keys": []})
    return scns


def deep_answer_scenarios():
    """answers that are deep terms whose innermost part is bound late, collected by hand and through
    evaluate_bounded (a search or a dereference deeper than the limit ends the collection: any prefix)"""
    X, Y = V(0), V(1)
    script = {"val/1": [clause(C("val", A("a"))), clause(C("val", A("b"))), clause(C("val", C("f", I(1))))],
              "deep/1": [clause(C("deep", X), conj(call(C("=", X, lst([I(i) for i in range(100)] + [Y]))), call(C("val", Y))))],
              "deep2/2": [clause(C("deep2", X, Y), conj(call(C("mk", X, V(2))), call(C("val", V(2))), call(C("=", Y, V(2)))))],
              "mk/2": [clause(C("mk", lst([V(0)]), V(0))), clause(C("mk", lst([I(0)], V(0)), V(1)), call(C("mk", V(0), V(1))))],
              "len/1": [clause(C("len", NIL))],
              # answers that grow by one level each: under evaluate_bounded's limit it is the dereferencing of the
              # answer (in the projection) or the search itself that runs out of stack first, depending on the shape
              "nat/1": [clause(C("nat", A("z"))), clause(C("nat", C("s", X)), call(C("nat", X)))],
              "wide/1": [clause(C("wide", A("z"))), clause(C("wide", C("s", X, Y, Y)), conj(call(C("wide", X)), call(C("=", Y, A("leaf")))))]}
    sk = lst([V(900 + i) for i in range(60)])      # a list skeleton of 60 unknowns: mk walks down and puts the late variable at the end
    scns = []
    for g, qnv, k in ((C("nat", V(0)), 1, 70), (C("wide", V(0)), 1, 70)):
        for via in ({"exc": "Exception", "prefix": True}, {"exc": "Exception", "prefix": True, "limit": 120}, {"exc": "SystemExit", "prefix": True, "limit": 300}):
            scns.append({"scripts": {"P": script}, "py": True, "keys": [],
                         "steps": [[{"op": "load", "e": 1, "script": "P", "ow": True}], [{"op": "solve", "e": 1, "r": 1, "goal": g, "qnv": qnv, "k": k, "via": via}],
                                   [{"op": "solve", "e": 1, "r": 2, "goal": C("val", V(0)), "qnv": 1, "k": 0}], [{"op": "solve", "e": 1, "r": 3, "goal": g, "qnv": qnv, "k": 3}]]})
    for g, qnv in ((C("deep", V(0)), 1), (C("deep2", lst([V(i + 1) for i in range(40)]), V(0)), 41)):
        for via in (None, {"exc": "Exception", "prefix": True}, {"exc": "Exception", "prefix": True, "limit": 120}, {"exc": "Exception", "limit": 5000}, {"exc": "KeyboardInterrupt", "limit": 5000}):
            op = {"op": "solve", "e": 1, "r": 1, "goal": g, "qnv": qnv, "k": 0 if not via or via.get("exc") == "Exception" else 2}
            if via:
                op["via"] = via
            scns.append({"scripts": {"P": script}, "py": True, "keys": [],
                         "steps": [[{"op": "load", "e": 1, "script": "P", "ow": True}], [op], [{"op": "solve", "e": 1, "r": 2, "goal": C("val", V(0)), "qnv": 1, "k": 0}]]})
    return scns


def run(tier, seed):
    chk = Check("C15", tier, seed)
    rnd = random.Random(seed)
    SG = gen.scale_groups()
    for s_ in SG["chain"]:
        s_["py"] = True
    chk.machine_family("long-variable-chains", SG["chain"], opts=dict(OPTS, budget_extra=20000000, must_complete=True), features=features, max_steps=30000)
    chk.machine_family("deep-answers-by-hand-and-bounded", deep_answer_scenarios(), features=features, max_steps=30000,
                       opts_list=[dict(OPTS, budget_extra=20000000, must_complete=True), dict(OPTS, budget_extra=20000000, must_complete=True, reuse_vars=True)])
    chk.machine_family("binding-orders", scenarios(), opts=OPTS, features=features)
    chk.machine_family("raw-goal-arguments", raw_arg_scenarios(), opts=OPTS, features=features)
    n = 1500 if tier == "quick" else 15000
    rs = []
    for _ in range(n):
        s = gen.random_scenario(rnd, {"meta", "ctl", "dyn", "db", "rich"}, nclauses=3, depth=rnd.choice([2, 3]))
        s["py"] = True
        rs.append(s)
    for i in range(0, n, 4000):
        chk.machine_family("random-%d" % (i // 4000), rs[i:i + 4000], opts=OPTS, features=features)
    # unification level: spec/UnifyGen.tla (GetValueIsResolve on the model) and every start state
    # replayed with get_value read at the yield and the saved values re-read after exhaustion/close/drop
    from . import c02
    c02.unify_family(chk, tier, seed, c15=True)
    chk.assumptions = ["to_python of improper lists and of '.' terms of other arities is unspecified and not compared",
                       "non-ground answers are compared through the driver's walker only; the no-variable-inside rule is applied to ground answers, as the property states"]
    return chk.finish()
