"""C03 - backtracking leaves no trace, however a query ends.

spec/YP.tla: CleanAfterEnd (a run that is done/closed/raised holds no bindings) is checked by TLC
in every micro state; the environment (TLC) chooses, after every answer, between next and the four
ways of abandoning a query (close, drop, consumer raises in its loop, break), and native predicates
raise at every (invocation, row) point.  On the code, after the abandoning call has returned, every
Variable created since the process started (hook registry) must be unbound whenever the
specification has no suspended query, the answers at each step must be exactly the predicted ones,
and the same query is then run again on the same engine and must give the predicted answers."""
import random

from ..core import Check
from ..terms import A, I, V, C, NIL, lst, clause, call, and_, or_, then, not_, conj, TRUE, FAIL, CUT
from .. import gen, bodies
from .c05 import features

HOWS = ["close", "drop", "raise", "break"]


def abandon_steps(goal, qnv, rounds, rerun=True):
    steps = [[{"op": "query", "e": 1, "r": 1, "goal": goal, "qnv": qnv}]]
    alts = [{"op": "next", "r": 1}] + [{"op": "close", "r": 1, "how": h} for h in HOWS]
    for _ in range(rounds):
        steps.append(alts)
    steps.append([{"op": "close", "r": 1, "how": "close"}])
    if rerun:
        steps.append([{"op": "solve", "e": 1, "r": 2, "goal": goal, "qnv": qnv, "k": rounds + 1}])
    return steps


def fixed_programs():
    X, Y, Z, L = V(0), V(1), V(2), V(3)
    script = {
        "n/1": [clause(C("n", I(i))) for i in (1, 2, 3)],
        "pr/2": [clause(C("pr", X, Y), and_(call(C("n", X)), call(C("n", Y))))],
        "st/2": [clause(C("st", C("f", X, Z), lst([Y], Z)), conj(call(C("n", X)), call(C("=", Z, C("g", Y))), call(C("n", Y))))],
        "ct/2": [clause(C("ct", X, Y), conj(call(C("n", X)), CUT, call(C("n", Y)))), clause(C("ct", A("no"), A("no")))],
        "ite/2": [clause(C("ite", X, Y), or_(then(call(C("n", X)), call(C("n", Y))), call(C("=", Y, A("else")))))],
        "neg/2": [clause(C("neg", X, Y), conj(call(C("n", X)), not_(call(C("=", X, I(2)))), call(C("=", Y, C("k", X)))))],
        "on/2": [clause(C("on", X, Y), conj(call(C("once", C("n", X))), call(C("n", Y))))],
        "fa/2": [clause(C("fa", X, Y), conj(call(C("n", X)), call(C("findall", C("w", Z), C("n", Z), Y))))],
        "cl/2": [clause(C("cl", X, Y), conj(call(C("=", Z, C("n", X))), call(C("call", Z)), call(C("call", A("n"), Y))))],
        "rt/2": [clause(C("rt", X, Y), conj(call(C("retract", C("d", X))), call(C("n", Y))))],
        "as/2": [clause(C("as", X, Y), conj(call(C("n", X)), call(C("assertz", C("d", C("h", X, Y)))), call(C("d", C("h", Y, Z)))))],
        "dj/2": [clause(C("dj", X, Y), or_(and_(call(C("n", X)), call(C("=", Y, A("l")))), and_(call(C("=", X, A("r"))), call(C("n", Y)))))],
        "lst/2": [clause(C("lst", lst([X], Y), Z), conj(call(C("n", X)), call(C("=", Y, lst([Z, X]))), call(C("n", Z))))],
        # a variable unified with a plain Python constant (an integer) by the = builtin, then further answers
        "cst/2": [clause(C("cst", X, Y), conj(call(C("=", X, I(7))), call(C("n", Y))))],
        "cst2/2": [clause(C("cst2", X, Y), conj(call(C("n", Y)), call(C("=", I(8), X))))],
    }
    goals = [(C("pr", V(0), V(1)), 2), (C("st", V(0), V(1)), 2), (C("ct", V(0), V(1)), 2), (C("ite", V(0), V(1)), 2), (C("neg", V(0), V(1)), 2),
             (C("on", V(0), V(1)), 2), (C("fa", V(0), V(1)), 2), (C("cl", V(0), V(1)), 2), (C("rt", V(0), V(1)), 2), (C("as", V(0), V(1)), 2),
             (C("dj", V(0), V(1)), 2), (C("lst", V(0), V(1)), 2), (C("pr", V(0), V(0)), 1), (C("st", C("f", V(0), V(1)), V(2)), 3),
             (C("=", C("f", V(0), V(1)), C("f", A("a"), lst([V(0)]))), 2), (C("findall", V(0), C("n", V(0)), V(1)), 2), (C("retract", C("d", V(0))), 1),
             (C("once", C("n", V(0))), 1), (C("call", C("pr", V(0)), V(1)), 2),
             (C("=", V(0), I(7)), 1), (C("=", I(7), V(0)), 1), (C("=", V(0), A("k")), 1), (C("cst", V(0), V(1)), 2), (C("cst2", V(0), V(1)), 2),
             (C("\\=", V(0), I(7)), 1)]
    scns = []
    for g, qnv in goals:
        steps = [[{"op": "load", "e": 1, "script": "P", "ow": True}],
                 [{"op": "assert", "e": 1, "term": C("d", I(1)), "atEnd": True, "r": 0}],
                 [{"op": "assert", "e": 1, "term": C("d", C("f", V(0))), "atEnd": True, "r": 0}],
                 [{"op": "assert", "e": 1, "term": C("d", I(3)), "atEnd": True, "r": 0}]] + abandon_steps(g, qnv, 4)
        scns.append({"scripts": {"P": script}, "steps": steps, "keys": [{"n": "d", "k": 1}]})
    return scns


def native_programs():
    """a native predicate raising at every (invocation, yielded rows) point, under several constructs"""
    X, Y, Z = V(0), V(1), V(2)
    script = {
        "n/1": [clause(C("n", I(i))) for i in (1, 2)],
        "u1/2": [clause(C("u1", X, Y), and_(call(C("n", X)), call(C("nat", Y))))],
        "u2/2": [clause(C("u2", X, Y), conj(call(C("nat", X)), call(C("=", Z, C("g", X))), call(C("nat", Y))))],
        "u3/2": [clause(C("u3", X, Y), conj(call(C("n", X)), call(C("findall", Z, C("nat", Z), Y))))],
        "u4/2": [clause(C("u4", X, Y), or_(then(call(C("nat", X)), call(C("n", Y))), call(C("=", Y, A("e")))))],
        "u5/2": [clause(C("u5", X, Y), conj(call(C("n", X)), not_(call(C("nat", I(9)))), call(C("once", C("nat", Y)))))],
    }
    rows_ng = [{"args": [I(1)], "nv": 0}, {"args": [C("f", V(0))], "nv": 1}, {"args": [I(3)], "nv": 0}]
    # (ground rows as well: findall over instances that are not ground is left open by the specification)
    rows_g = [{"args": [I(1)], "nv": 0}, {"args": [C("f", A("a"))], "nv": 0}, {"args": [I(3)], "nv": 0}]
    scns = []
    for rows in (rows_ng, rows_g):
      for gi, (g, qnv) in enumerate([(C("u1", V(0), V(1)), 2), (C("u2", V(0), V(1)), 2), (C("u3", V(0), V(1)), 2), (C("u4", V(0), V(1)), 2), (C("u5", V(0), V(1)), 2)]):
          for callno in (1, 2, 3):
              for row in (0, 1, 2, 3):
                  reg = {"op": "register", "e": 1, "name": "nat", "arity": 1, "style": "explicit", "fid": "nat", "rows": rows,
                         "raise": {"call": callno, "row": row}, "yields": bool((callno + row) % 2)}
                  steps = [[{"op": "load", "e": 1, "script": "P", "ow": True}], [reg],
                           [{"op": "query", "e": 1, "r": 1, "goal": g, "qnv": qnv}]]
                  for _ in range(7):
                      steps.append([{"op": "next", "r": 1}])
                  steps.append([{"op": "close", "r": 1, "how": "close"}])
                  # afterwards the engine must still work: the same query against facts only
                  steps.append([{"op": "solve", "e": 1, "r": 2, "goal": C("n", V(0)), "qnv": 1, "k": 0}])
                  scns.append({"scripts": {"P": script}, "steps": steps, "keys": []})
    return scns


def foreign_programs():
    """the application uses Python values (tuples, named tuples, frozensets, bytes) as constants, has debug
    logging switched on for the package, and builds everything through the API: facts, a native predicate
    and the goals; every abandonment point"""
    X, Y, Z = V(0), V(1), V(2)
    facts = [C("pos", A("tom"), A("p34")), C("pos", A("jerry"), A("p12")), C("pos", A("spike"), C("at", A("p007"), V(0))), C("pos", V(0), A("nowhere"))]
    rows = [{"args": [A("tom"), A("cat")], "nv": 0}, {"args": [A("jerry"), C("kind", A("mouse"))], "nv": 0}, {"args": [V(0), A("thing")], "nv": 1}]
    goals = [(C("pos", X, Y), 2), (C("pos", A("tom"), X), 1), (C("pos", X, A("p12")), 1), (C("kind", X, Y), 2), (C("kind", A("jerry"), C("kind", X)), 1),
             (C("findall", C("w", X, Y), C("pos", X, Y), Z), 3), (C("once", C("pos", X, Y)), 2), (C("retract", C("pos", X, Y)), 2),
             (C("call", C("pos", X), Y), 2), (C("=", C("f", X, A("k1")), C("f", A("k2"), Y)), 2), (C("\\=", A("k1"), A("k2")), 0), (C("=", A("k1"), A("k2")), 0)]
    scns = []
    for callno, row in [(0, 0), (1, 1), (1, 3), (2, 0)]:
        for g, qnv in goals:
            if callno and g["n"] != "kind":
                continue
            reg = {"op": "register", "e": 1, "name": "kind", "arity": 2, "style": "explicit", "fid": "kind", "rows": rows,
                   "raise": {"call": callno, "row": row}, "yields": False}
            steps = [[{"op": "assert", "e": 1, "term": f, "atEnd": True, "r": 0}] for f in facts] + [[reg]] + abandon_steps(g, qnv, 3)
            scns.append({"scripts": {}, "steps": steps, "keys": [{"n": "pos", "k": 2}]})
    return scns


def run(tier, seed):
    chk = Check("C03", tier, seed)
    rnd = random.Random(seed)
    chk.machine_family("abandon-fixed", fixed_programs(), features=features)
    chk.machine_family("native-raise-points", native_programs(), features=features)
    chk.machine_family("python-values-as-constants-under-debug-logging", foreign_programs(), features=features,
                       opts_list=[{}, {"foreign": True, "log_debug": True, "c15": False}])
    # body trees (cut / ; / -> / \+) with every abandonment point
    res = bodies.enumerate_instances(4 if tier == "quick" else 5, 0, 2)
    chk.add_tlc(res, ["CodegenRefinesControl"])
    inst = [r for r in bodies.dedupe(res.records) if len(r["sem"]) >= 2]
    rnd.shuffle(inst)
    inst = inst[:150 if tier == "quick" else 3000]
    scns = []
    for r in inst:
        s = bodies.scenario(r)
        goal = s["steps"][1][0]["goal"]
        s["steps"] = [s["steps"][0]] + abandon_steps(goal, r["nocc"], min(len(r["sem"]), 4))
        del s["sem"]
        scns.append(s)
    chk.machine_family("abandon-bodies", scns, features=features)
    n = 120 if tier == "quick" else 3000
    rs = []
    for _ in range(n):
        s = gen.random_scenario(rnd, {"meta", "ctl", "dyn", "db", "cut", "rich"}, nclauses=3, depth=rnd.choice([2, 3]))
        sol = s["steps"][1][0]
        s["steps"] = [s["steps"][0]] + abandon_steps(sol["goal"], sol["qnv"], 3)
        rs.append(s)
    chk.machine_family("abandon-random", rs, features=features)
    # the consumer's code can also be the projection function of evaluate_bounded: every raise point,
    # validated against spec/EvalBounded.tla (bindings undone, limit restored)
    from . import c17
    c17.family(chk, tier, seed, only=[0, 3, 7, -3, -2, -1])
    # "a query or unification generator": every start state of spec/UnifyGen.tla on the real unify, ended three
    # ways, created before / started under other unifications (see harness/props/c02.py)
    from . import c02
    c02.unify_family(chk, tier, seed)
    need = ["Close_close", "Close_drop", "Close_raise", "Close_break", "DoNativeRaise", "DoAnswer", "DoExhausted"]
    missing = [e for e in need if not chk.events.get(e)]
    if missing:
        chk.machinery_errors.append("vacuity: spec steps never taken: %s" % missing)
    # random API sessions (loads, registrations, asserts through both routes, queries advanced step by
    # step and abandoned between updates, clears) over unusual term shapes; decided by the machine
    from .. import gen as _gen
    _rnd = random.Random(seed * 7919 + 3)
    _ss = [_gen.api_session(_rnd, engines=1, length=_rnd.randint(6, 14)) for _ in range(250 if tier == "quick" else 4000)]
    for _i in range(0, len(_ss), 2500):
        chk.machine_family("api-sessions-%d" % (_i // 2500), _ss[_i:_i + 2500], features=features)
    chk.assumptions = ["the registry hook (YLDPROLOG_VERIF=1) sees every engine Variable created in the worker process",
                       "binding state is observed after the abandoning call has returned and the consumer's except block has been left (CPython reference counting finalises the generator there)"]
    return chk.finish()
