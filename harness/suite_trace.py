"""Code -> specification: the repository's own test suite is run with every use of the public API recorded
(harness/pytest_trace_plugin.py, no change to the repository), each test's trace becomes a scenario whose
steps are exactly the recorded operations, TLC runs spec/YP.tla on it - evaluating every invariant in every
micro state of the behaviour the tests exercise - and prints the observations the specification allows;
they are compared with what the tests observed.  A trace leaves the specified fragment at the first event
the specification has no counterpart for (Python predicates of the tests, hand-written scripts, Python
constants other than integers, goals whose variables are bound when the query starts, programs outside the
machine's Prolog subset); the prefix before that event is still validated."""
import glob
import json
import os
import shutil
import subprocess

from . import tlc

VERIF = os.path.dirname(os.path.dirname(os.path.abspath(__file__)))


def record(repo):
    out = os.path.join(tlc.WORK, "suite-trace-%d" % os.getpid())
    shutil.rmtree(out, ignore_errors=True)
    os.makedirs(out)
    env = dict(os.environ)
    env["PYTHONPATH"] = os.path.join(repo, "src") + os.pathsep + VERIF
    env["VERIF_SUITE_TRACE_DIR"] = out
    env["PYTHONDONTWRITEBYTECODE"] = "1"
    env.pop("YLDPROLOG_VERIF", None)
    p = subprocess.run(["/venv/bin/python", "-m", "pytest", "-q", "-p", "no:cacheprovider", "-p", "harness.pytest_trace_plugin", "tests"],
                       cwd=repo, env=env, capture_output=True, text=True, timeout=1800)
    traces = []
    for fn in sorted(glob.glob(os.path.join(out, "*.json"))):
        traces.append(json.load(open(fn)))
    shutil.rmtree(out, ignore_errors=True)
    tail = (p.stdout.strip().splitlines() or [""])[-1]
    return traces, p.returncode, tail


def to_scenario(trace):
    """returns (scenario, observed, note): observed[i] is what the test saw at step i (None: nothing to compare)"""
    from . import fromsource
    scripts = {}
    note = None
    for sha, text in trace["sources"].items():
        try:
            scripts[sha] = fromsource.parse(text)
        except Exception as e:
            scripts[sha] = None
    steps, observed = [], []
    engines = 0
    open_runs = set()
    for ev in trace["events"]:
        k = ev["ev"]
        if k == "engine":
            engines = max(engines, ev["e"])
            continue
        if k == "unsupported":
            note = ev["why"]
            break
        if k == "load":
            if scripts.get(ev["sha"]) is None:
                note = "a program outside the machine's Prolog subset"
                break
            steps.append({"op": "load", "e": ev["e"], "script": ev["sha"], "ow": ev["ow"]}); observed.append(None)
        elif k == "assert":
            steps.append({"op": "assert", "e": ev["e"], "term": ev["term"], "atEnd": ev["atEnd"], "r": 0}); observed.append(None)
        elif k == "clear":
            if open_runs:
                note = "clear() while a query is suspended (unspecified)"
                break
            steps.append({"op": "clear", "e": ev["e"]}); observed.append(None)
        elif k == "query":
            steps.append({"op": "query", "e": ev["e"], "r": ev["r"], "goal": ev["goal"], "qnv": ev["qnv"]}); observed.append(None)
            open_runs.add(ev["r"])
        elif k == "answer":
            steps.append({"op": "next", "r": ev["r"]}); observed.append({"k": "answer", "ans": ev["ans"]})
        elif k == "stop":
            steps.append({"op": "next", "r": ev["r"]}); observed.append({"k": "stop"})
            open_runs.discard(ev["r"])
        elif k == "close":
            steps.append({"op": "close", "r": ev["r"], "how": "close"}); observed.append(None)
            open_runs.discard(ev["r"])
        elif k == "raised":
            note = "the query raised %s" % ev.get("exc")
            break
    scn = {"engines": max(engines, 1), "scripts": {k: v for k, v in scripts.items() if v is not None}, "keys": [], "steps": [[s] for s in steps],
           "test": trace["test"]}
    return scn, observed, note


def validate(chk, repo, features=None):
    """records the suite, lets TLC run the traces, compares; adds a family to the check"""
    from . import replay
    traces, rc, tail = record(repo)
    if not traces:
        chk.machinery_errors.append("recording the repository's test suite produced no trace (pytest: %s)" % tail)
        return
    scns, obs, notes = [], [], []
    for t in traces:
        s, o, n = to_scenario(t)
        if not s["steps"]:
            notes.append((t["test"], n or "no use of the engine API"))
            continue
        scns.append(s); obs.append(o)
        if n:
            notes.append((t["test"], "validated up to: " + n))
    # TLC decides the traces (no replay here: the real side is the recording)
    for i, s in enumerate(scns):
        s["id"] = i + 1
    fn = os.path.join(tlc.WORK, "suite-scn-%d.json" % os.getpid())
    with open(fn, "w") as f:
        json.dump(tlc.enc_json(scns), f)
    try:
        res = tlc.run("YP", "YP.cfg", env={"SCN_FILE": fn}, tag="suite-%d" % os.getpid(), timeout=1200)
    finally:
        os.unlink(fn)
    chk.add_tlc(res, ["CleanAfterEnd", "FactIdsUnique", "FactsWellKeyed", "BarriersOK", "SnapshotsOK", "DbStepShape"])
    by_id = {r["id"]: r for r in res.records}
    fam = {"family": "repository-test-suite-traces", "tests_recorded": len(traces), "tests_with_engine_use": len(scns), "pytest": tail,
           "validated_steps": 0, "accepted": 0, "cut_by_the_specification": 0, "outside_the_specified_fragment": [list(n) for n in notes][:40]}
    for s, o in zip(scns, obs):
        rec = by_id.get(s["id"])
        chk.evaluations += 1
        if rec is None:
            chk.machinery_errors.append("no behaviour from TLC for the trace of %s" % s["test"])
            continue
        hist = rec["hist"]
        bad = None
        n_ok = 0
        for i, step in enumerate(s["steps"]):
            if i >= len(hist):
                break       # the specification stopped (fuel, unspecified step): the rest is not decided
            h = hist[i]
            if h["op"].get("op") != step[0]["op"] or h["op"].get("r") != step[0].get("r"):
                break       # an operation the specification does not enable (skipped): not decided from here
            if h["obs"]["k"] in ("budget", "cyclic", "unspec"):
                fam["cut_by_the_specification"] += 1
                break
            if o[i] is not None:
                exp = {"k": h["obs"]["k"]}
                if exp["k"] == "answer":
                    exp["ans"] = h["obs"]["ans"]
                if replay.norm(exp) != replay.norm(o[i]):
                    bad = {"step": i, "op": step[0], "expected": exp, "observed": o[i]}
                    break
            n_ok += 1
        fam["validated_steps"] += n_ok
        chk.validated_traces += 1
        if bad:
            chk.violation({"kind": "suite-trace", "detail": "what the test %s observed is not what the specification allows at step %d" % (s["test"], bad["step"]),
                           "family": "repository-test-suite-traces", "scenario": s, "record": rec, "op": bad["op"], "expected": bad["expected"], "observed": bad["observed"],
                           "features": {"op": bad["op"].get("op"), "family": "repository-test-suite-traces", "test": s["test"]}})
        else:
            fam["accepted"] += 1
            if n_ok:
                chk.nontrivial.add("suite:" + s["test"])
    # the comparison binds: the same records with one observed answer altered must be rejected
    demo = False
    for s, o in zip(scns, obs):
        rec = by_id.get(s["id"])
        for i, x in enumerate(o):
            if rec and x and x.get("k") == "answer" and x["ans"] and i < len(rec["hist"]) and rec["hist"][i]["obs"].get("k") == "answer":
                alt = {"k": "answer", "ans": [{"t": "a", "n": "altered by the self-check"}] + x["ans"][1:]}
                demo = replay.norm({"k": "answer", "ans": rec["hist"][i]["obs"]["ans"]}) != replay.norm(alt)
                break
        if demo:
            break
    fam["an_altered_answer_is_rejected"] = demo
    if not demo:
        chk.machinery_errors.append("suite traces: the binding self-check found no answer to alter")
    chk.families.append(fam)
    return fam
