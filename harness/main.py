"""entry point of every check: bin/check <property> [--tier T] [--replay file]"""
import argparse
import json
import os
import sys
import traceback

from . import props


def main():
    ap = argparse.ArgumentParser()
    ap.add_argument("prop")
    ap.add_argument("--tier", default=os.environ.get("VERIF_TIER") or "quick", choices=["quick", "thorough"])
    ap.add_argument("--replay")
    a = ap.parse_args()
    seed = int(os.environ.get("VERIF_SEED") or 0)
    mod = props.load(a.prop)
    try:
        if a.replay:
            rc = mod.replay_file(a.replay) if hasattr(mod, "replay_file") else generic_replay(a.prop, a.replay)
        else:
            rc = mod.run(a.tier, seed)
    except Exception:
        print("MACHINERY-ERROR property=%s" % a.prop)
        traceback.print_exc()
        rc = 2
    return rc


def entry():
    """run main in a thread with a large stack (deeply nested terms in generators and records)"""
    import threading
    out = {"rc": 2}

    def body():
        sys.setrecursionlimit(200000)
        out["rc"] = main()
    threading.stack_size(1024 * 1024 * 1024)
    t = threading.Thread(target=body)
    t.start()
    t.join()
    sys.stdout.flush()
    sys.exit(out["rc"])


def generic_replay(prop, path):
    """re-run exactly the behaviour stored in a replay file on the current tree"""
    from . import replay
    body = json.load(open(path))
    scn, rec = body["scenario"], body["record"]
    r = replay.replay_all([(scn, rec, body.get("opts", {}))], procs=1)[0]
    print(json.dumps({k: v for k, v in r.items() if k != "texts"}, indent=1, default=str)[:4000])
    if r["status"] == "violation":
        print("VIOLATION property=%s replay=%s" % (prop, path))
        return 1
    return 0


if __name__ == "__main__":
    entry()
