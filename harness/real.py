"""The real side: building engine terms from term images, projecting engine state back
(the abstraction function), and executing API-level operations of a specification
behaviour on the code in the repository's working tree.

Nothing here uses get_value/to_python of the engine for comparisons (their depth is the
subject of C15): the projection has its own walker.
"""
import gc
import io
import os
import sys
import contextlib
import functools

REPO = os.environ.get("YLDPROLOG_REPO", "/repo")
os.environ["YLDPROLOG_VERIF"] = "1"
if os.path.join(REPO, "src") not in sys.path:
    sys.path.insert(0, os.path.join(REPO, "src"))

import yldprolog.engine as engine          # noqa: E402
from yldprolog.engine import YP, Atom, Functor, Variable   # noqa: E402
import yldprolog.compiler as compiler      # noqa: E402

from . import terms as T                   # noqa: E402


class NativeBoom(Exception):
    """the tagged exception a native predicate raises when the scenario says so"""


class ConsumerError(Exception):
    """raised by the consumer inside its loop over a query"""


class Mismatch(Exception):
    def __init__(self, kind, detail, expected=None, observed=None):
        Exception.__init__(self, kind)
        self.kind = kind
        self.detail = detail
        self.expected = expected
        self.observed = observed


# ---------------------------------------------------------------- build / project
# Python values used as constants by the application (any value that is not a Variable or Functor is a
# constant for the engine, compared with ==).  When FOREIGN is set, the atoms in ARGUMENT positions that
# the consumer builds become such values (only in scenarios where no compiled script mentions them).
FOREIGN = False
_FOREIGN_BACK = {}
_Point = __import__("collections").namedtuple("Point", "x y")
_FOREIGN_MAKERS = [lambda n: (n, 1), lambda n: _Point(n, 2), lambda n: (n, 0, 7), lambda n: frozenset([n, 1]), lambda n: n.encode("utf-8"), lambda n: (n,)]


def foreign_constant(name):
    obj = _FOREIGN_MAKERS[(len(name) + ord(name[0])) % len(_FOREIGN_MAKERS)](name)
    _FOREIGN_BACK[obj] = name
    return obj


_NIL_TURN = [0]


def _proper_list(t):
    out = []
    while t["t"] == "c" and t["n"] == "." and len(t["a"]) == 2:
        out.append(t["a"][0]); t = t["a"][1]
    return out if t == {"t": "a", "n": "[]"} else None


def build(yp, t, env):
    k = t["t"]
    if k == "a":
        if FOREIGN and t["n"] not in ("[]", "true", "fail"):
            return foreign_constant(t["n"])
        if t["n"] == "[]":
            # alternately the documented empty-list object (what makelist and compiled `[]` use) and the atom of that name
            _NIL_TURN[0] += 1
            if _NIL_TURN[0] % 2:
                return yp.ATOM_NIL
        return yp.atom(t["n"])
    if k == "i":
        return int(t["n"])
    if k == "v":
        if t["id"] not in env:
            env[t["id"]] = yp.variable()
        return env[t["id"]]
    if t["n"] == "." and len(t["a"]) == 2 and (len(t["a"]) + len(env)) % 4 == 1:
        elems = _proper_list(t)
        if elems is not None:
            return yp.makelist([build(yp, a, env) for a in elems])
    args = [build(yp, a, env) for a in t["a"]]
    # exercise every public term constructor: functor1/2/3 are documented as equivalent to functor,
    # listpair/makelist to the "." functor
    h = (len(t["n"]) + len(args) * 7 + len(env)) % 3
    if t["n"] == "." and len(args) == 2 and h == 0:
        return yp.listpair(args[0], args[1])
    if h == 1 and len(args) == 1:
        return yp.functor1(t["n"], args[0])
    if h == 1 and len(args) == 2:
        return yp.functor2(t["n"], args[0], args[1])
    if h == 1 and len(args) == 3:
        return yp.functor3(t["n"], args[0], args[1], args[2])
    return yp.functor(t["n"], args)


class CyclicBinding(Exception):
    """a chain of variable bindings that never ends (a variable bound to itself)"""


def walk(x):
    hops = 0
    while isinstance(x, Variable) and x._is_bound:
        x = x._value
        hops += 1
        if hops > 100000:
            raise CyclicBinding("variable binding chain does not end")
    return x


def project(x, names):
    """canonical image of a real term; unbound variables are numbered by first occurrence"""
    stack_guard = 0
    x = walk(x)
    if isinstance(x, Variable):
        return {"t": "v", "id": names.setdefault(id(x), len(names))}
    if isinstance(x, Atom):
        return {"t": "a", "n": x._name}
    if isinstance(x, Functor):
        return {"t": "c", "n": x._name, "a": [project(a, names) for a in x._args]}
    if isinstance(x, bool):
        return {"t": "py", "v": repr(x)}
    if isinstance(x, int):
        return {"t": "i", "n": str(x)}
    if FOREIGN and x in _FOREIGN_BACK:
        return {"t": "a", "n": _FOREIGN_BACK[x]}
    return {"t": "py", "v": repr(x)}


def project_tuple(xs):
    names = {}
    return [project(x, names) for x in xs]


def project_raw(x, names):
    """image of a term as stored, WITHOUT following bindings: a bound variable inside shows
    up as {"t":"bound"}.  Used for C15: what get_value returned must not rely on bindings."""
    if isinstance(x, Variable):
        if x._is_bound:
            return {"t": "bound", "to": project_raw(x._value, names)}
        return {"t": "v", "id": names.setdefault(id(x), len(names))}
    if isinstance(x, Atom):
        return {"t": "a", "n": x._name}
    if isinstance(x, Functor):
        return {"t": "c", "n": x._name, "a": [project_raw(a, names) for a in x._args]}
    if isinstance(x, bool):
        return {"t": "py", "v": repr(x)}
    if isinstance(x, int):
        return {"t": "i", "n": str(x)}
    if FOREIGN and x in _FOREIGN_BACK:
        return {"t": "a", "n": _FOREIGN_BACK[x]}
    return {"t": "py", "v": repr(x)}


def project_raw_tuple(xs):
    names = {}
    return [project_raw(x, names) for x in xs]


def py_image(v):
    """JSON image of a to_python result (same shape as Terms!ToPy)"""
    if v is None:
        return {"none": True}
    if isinstance(v, bool):
        return {"other": repr(v)}
    if isinstance(v, int):
        return {"i": str(v)}
    if isinstance(v, str):
        return {"s": v}
    if isinstance(v, list):
        return {"l": [py_image(x) for x in v]}
    if isinstance(v, tuple) and len(v) == 2 and isinstance(v[0], str) and isinstance(v[1], list):
        return {"f": v[0], "a": [py_image(x) for x in v[1]]}
    return {"other": repr(v)}


def is_ground_image(t):
    if t["t"] == "v":
        return False
    if t["t"] == "c":
        return all(is_ground_image(a) for a in t["a"])
    return True


def project_db(yp, keys):
    """contents of the watched keys, read back through the public facts-only API"""
    out = []
    for k in keys:
        vs = [yp.variable() for _ in range(k["k"])]
        rows = []
        for _ in yp.match_dynamic(yp.atom(k["n"]), vs):
            args = project_tuple(vs)
            rows.append({"t": "a", "n": k["n"]} if k["k"] == 0 else {"t": "c", "n": k["n"], "a": args})
        out.append(rows)
    return out


def bound_registry():
    reg = engine._verif_variables
    return [v for v in list(reg) if v._is_bound]


# ---------------------------------------------------------------- compile cache
_COMPILE_LOCK = __import__("threading").Lock()


@functools.lru_cache(maxsize=4096)
def _compile_text(text):
    with contextlib.redirect_stderr(io.StringIO()), contextlib.redirect_stdout(io.StringIO()):
        return compiler.compile_prolog_from_string(text)


def compile_text(text):
    # redirect_stdout/stderr swap process-wide objects: never from two threads at once
    with _COMPILE_LOCK:
        return _compile_text(text)


# ---------------------------------------------------------------- native predicates
class NativeState:
    def __init__(self):
        self.calls = {}
        self.log = []
        self.boom_by_fid = {}


def make_native(yp, op, nstate):
    fid = op["fid"]
    rows = op["rows"]
    rc, rr = op["raise"]["call"], op["raise"]["row"]
    yv = bool(op.get("yields", False))
    kind = op["raise"].get("exc", "custom")
    if kind != "custom":
        # an ordinary exception type raised inside the predicate body; it must reach the consumer
        # as this very object
        # (the TypeError carries the text CPython uses for a call with too few arguments, as when a helper
        # inside the predicate is called wrongly)
        msg = "helper() missing 1 required positional argument: 'x'" if kind == "TypeError" else "raised inside the predicate %s" % fid
        nstate.boom_by_fid[fid] = {"TypeError": TypeError, "ValueError": ValueError, "KeyError": KeyError,
                                   "RuntimeError": RuntimeError, "StopIteration": RuntimeError, "AttributeError": AttributeError,
                                   "IndexError": IndexError, "ZeroDivisionError": ZeroDivisionError, "OSError": OSError,
                                   "NameError": NameError, "UnboundLocalError": UnboundLocalError, "AssertionError": AssertionError}[kind](msg)

    def body(args):
        nstate.calls[fid] = nstate.calls.get(fid, 0) + 1
        callno = nstate.calls[fid]
        nstate.log.append({"fid": fid, "args": project_tuple(args)})
        yielded = 0
        for row in rows:
            if rc == callno and rr == yielded:
                raise nstate.boom_by_fid.get(fid, nstate.boom)
            env = {}
            rowterms = [build(yp, t, env) for t in row["args"]]
            for _ in engine.unify_arrays(list(args), rowterms):
                yield yv
                yielded += 1
        if rc == callno and rr == yielded:
            raise nstate.boom_by_fid.get(fid, nstate.boom)

    arity = op["arity"]
    style = op.get("style", "explicit")
    if arity < 0 or style in ("variadic", "explicit-varargs"):
        def f(*args):
            yield from body(args)
        return f
    params = ",".join("a%d" % i for i in range(arity))
    ns = {"body": body}
    exec("def f(%s):\n    yield from body([%s])\n" % (params, params), ns)
    f = ns["f"]
    # the kinds of callable an application registers: a plain generator function, one behind a decorator that
    # uses functools.wraps, a bound method, a functools.partial, an object with __call__ (the arity inferred
    # by register_function is that of the signature in every case)
    kinds = ("plain", "wrapped", "method", "partial", "object", "falsy-object")
    kind = op.get("ckind") or (kinds[(sum(map(ord, fid)) + arity) % len(kinds)] if style == "inferred" else "plain")
    if kind == "wrapped":
        import functools

        def deco(g):
            @functools.wraps(g)
            def w(*a, **k):
                return g(*a, **k)
            return w
        return deco(f)
    if kind == "method":
        exec("class H:\n    def m(self, %s):\n        yield from body([%s])\n" % (params, params) if arity else
             "class H:\n    def m(self):\n        yield from body([])\n", ns)
        return ns["H"]().m
    if kind == "partial":
        import functools
        exec("def g(tag, %s):\n    yield from body([%s])\n" % (params, params) if arity else "def g(tag):\n    yield from body([])\n", ns)
        return functools.partial(ns["g"], "tag")
    if kind == "falsy-object":
        # a callable that is falsy (a row-backed relation that is empty, a counter): it is registered all the same
        exec("class O:\n    def __len__(self):\n        return 0\n    def __call__(self, %s):\n        yield from body([%s])\n" % (params, params) if arity else
             "class O:\n    def __len__(self):\n        return 0\n    def __call__(self):\n        yield from body([])\n", ns)
        return ns["O"]()
    if kind == "object":
        exec("class O:\n    def __call__(self, %s):\n        yield from body([%s])\n" % (params, params) if arity else
             "class O:\n    def __call__(self):\n        yield from body([])\n", ns)
        return ns["O"]()
    return f


def collide(code_a, code_b):
    """two script texts (code_a, code_b each followed by a comment line) of the same length and the same CRC-32:
    what a cache of loaded scripts keyed by name, size and checksum cannot tell apart.  CRC-32 is affine over
    GF(2): 64 positions of the second comment choose between two letters, a linear system picks them."""
    import zlib
    a, b = code_a.encode("utf-8"), code_b.encode("utf-8")
    n = max(len(a), len(b)) + 80
    a2 = a + b"#" + b"a" * (n - len(a) - 2) + b"\n"
    base = bytearray(b + b"#" + b"a" * (n - len(b) - 2) + b"\n")
    pos = list(range(n - 66, n - 2))
    c0 = zlib.crc32(bytes(base))
    want = c0 ^ zlib.crc32(a2)
    vecs = []
    for p_ in pos:
        m = bytearray(base)
        m[p_] ^= 0x03          # 'a' <-> 'b'
        vecs.append(zlib.crc32(bytes(m)) ^ c0)
    # Gaussian elimination, remembering which positions each reduced vector combines
    basis = {}
    for i, v in enumerate(vecs):
        comb = 1 << i
        while v:
            h = v.bit_length() - 1
            if h not in basis:
                basis[h] = (v, comb)
                break
            bv, bc = basis[h]
            v ^= bv
            comb ^= bc
    comb = 0
    w = want
    while w:
        h = w.bit_length() - 1
        if h not in basis:
            return None
        bv, bc = basis[h]
        w ^= bv
        comb ^= bc
    for i, p_ in enumerate(pos):
        if comb >> i & 1:
            base[p_] ^= 0x03
    b2 = bytes(base)
    assert len(a2) == len(b2) and zlib.crc32(a2) == zlib.crc32(b2) and a2 != b2
    return a2.decode("utf-8"), b2.decode("utf-8")


# ---------------------------------------------------------------- executing a behaviour
class Runner:
    """executes the API operations of one specification behaviour on real engines"""

    def __init__(self, scn, mode="full", opts=None):
        self.scn = scn
        self.mode = mode
        self.opts = opts or {}
        self.live = {}     # run id -> image of the answer a suspended run is standing at
        self.frozen = []   # (run id, values returned by get_value at an answer of a run that has ended, image when it ended)
        self.saved = {}    # run id -> [(values returned by get_value at an answer, their image at that time, to_python image)]
        self.qargs = {}    # run id -> the goal's argument terms as built (raw functors with variables inside)
        self.built = {}    # run id -> lists built with makelist from the query variables at earlier answers
        global FOREIGN
        FOREIGN = bool(self.opts.get("foreign"))
        self.log_handler = None
        if self.opts.get("log_debug"):
            # the application has switched debug logging on for the package (records go to a collecting handler)
            import logging

            class _Collect(logging.Handler):
                def emit(self, record):
                    try:
                        record.getMessage()
                    except Exception:
                        pass
            lg = logging.getLogger("yldprolog")
            self.log_handler = _Collect()
            self.log_prev = (lg.level, lg.propagate)
            lg.addHandler(self.log_handler)
            lg.setLevel(logging.DEBUG)
            lg.propagate = False
        import sys as _sys
        self.base_limit = _sys.getrecursionlimit()
        if self.opts.get("reclimit"):
            # small scenarios under the interpreter's default limit: a change of the limit by the code is visible
            self.prev_limit = self.base_limit
            _sys.setrecursionlimit(self.opts["reclimit"])
            self.base_limit = self.opts["reclimit"]
        self.pool = []          # Variable objects of queries that have ended (opts reuse_vars: the consumer uses them again)
        self.name_atoms = {}    # opts keep_name_atoms: predicate-name atoms the consumer created once and keeps using
        self.yps = [YP() for _ in range(scn.get("engines", 1))]
        self.q = {}        # run id -> [generator] (a list so that the reference can be dropped)
        self.qv = {}       # run id -> query variables
        self.nstate = NativeState()
        self.nstate.boom = NativeBoom("boom")
        self.keys = scn.get("keys", [])
        self.texts = {}

    def script_code(self, name, mode=None):
        src = T.render_script(self.scn["scripts"][name], mode or self.mode)
        self.texts[name] = src
        return compile_text(src)

    def name_atom(self, yp, name):
        if not self.opts.get("keep_name_atoms"):
            return yp.atom(name)
        key = (id(yp), name)
        if key not in self.name_atoms:
            self.name_atoms[key] = yp.atom(name)
        return self.name_atoms[key]

    def start_query(self, op):
        yp = self.yps[op["e"] - 1]
        env = {}
        if self.opts.get("reuse_vars"):
            for i, v in enumerate(self.pool[:op["qnv"]]):
                if not v._is_bound:
                    env[i] = v
        vs = [build(yp, T.V(i), env) for i in range(op["qnv"])]
        goal = op["goal"]
        args = [build(yp, a, env) for a in goal.get("a", [])]
        self.qv[op["r"]] = vs
        self.qargs[op["r"]] = args
        self.built[op["r"]] = []
        if self.opts.get("check_nlog"):
            del self.nstate.log[:]     # the specification logs per run; one run at a time in these families
        if self.opts.get("md") and goal["n"] in self.scn.get("facts_only", ()):
            # the facts-only entry point of the public API (what compiled code written by hand calls)
            # (called when the consumer's loop starts, as in `for _ in yp.match_dynamic(...)` inside a generator)
            def lazy(yp=yp, name=goal["n"], args=args):
                yield from yp.match_dynamic(yp.atom(name), args)
            self.q[op["r"]] = [lazy()]
        else:
            self.q[op["r"]] = [yp.query(goal["n"], args)]

    def one_next(self, r):
        """returns the observation of next() on run r"""
        self.live.pop(r, None)
        try:
            next(self.q[r][0])
        except StopIteration:
            return {"k": "stop", "stale": self.check_saved(r)}
        except NativeBoom as e:
            if e is not self.nstate.boom:
                return {"k": "exception", "exc": "NativeBoom(other object)"}
            return {"k": "raised", "stale": self.check_saved(r)}
        except Exception as e:
            if any(e is b for b in self.nstate.boom_by_fid.values()):
                return {"k": "raised", "stale": self.check_saved(r)}
            raise
        o = {"k": "answer", "ans": project_tuple(self.qv[r])}
        self.live[r] = o["ans"]
        if self.opts.get("c15", True):
            # what the public accessors return at this answer (a consumer reads answers through
            # get_value / to_python, so the replay does too)
            gv = [engine.get_value(v) for v in self.qv[r]]
            o["gv"] = project_raw_tuple(gv)
            o["py"] = []
            for v in self.qv[r]:
                try:
                    o["py"].append(py_image(engine.to_python(v)))
                except Exception as e:     # compared only where the specification defines to_python
                    o["py"].append({"exception": type(e).__name__})
            self.saved.setdefault(r, []).append((gv, o["ans"], o["py"]))
            # the accessors applied to the terms the consumer passed in (raw functors)
            args = self.qargs.get(r, [])
            try:
                o["gargs"] = project_raw_tuple([engine.get_value(a) for a in args])
            except Exception as e:
                o["gargs"] = [{"exception": type(e).__name__}]
            o["pyargs"] = []
            for a in args:
                try:
                    o["pyargs"].append(py_image(engine.to_python(a)))
                except Exception as e:
                    o["pyargs"].append({"exception": type(e).__name__})
            # a list built with makelist from the query variables at an EARLIER answer holds the variables
            # themselves: it must show this answer's bindings now
            yp = self.yps[0]
            recent = self.built.get(r, [])[-3:]
            for lst in self.built.get(r, []):
                elems = []
                x = walk(lst)
                while isinstance(x, Functor) and x._name == "." and len(x._args) == 2:
                    elems.append(x._args[0])
                    x = walk(x._args[1])
                if project_tuple(elems) != o["ans"]:
                    o["makelist_stale"] = {"list_now": project_tuple(elems), "answer": o["ans"]}
                elif any(lst is x for x in recent):
                    # ... also when read through to_python (the list object itself is kept by the consumer)
                    try:
                        pl = engine.to_python(lst)
                        want = [engine.to_python(v) for v in self.qv[r]]
                        if isinstance(pl, list) and py_image(pl) != py_image(want):
                            o["makelist_stale"] = {"to_python_of_the_list_now": py_image(pl), "to_python_of_the_variables": py_image(want)}
                    except Exception:
                        pass
            if self.qv[r]:
                self.built.setdefault(r, []).append(yp.makelist(list(self.qv[r])))
        return o

    def check_saved(self, r):
        """C15: values saved at the answers must still denote the same (ground) terms now"""
        bad = []
        if self.opts.get("reuse_vars") and r in self.qv:
            self.pool = list(self.qv[r]) + [v for v in self.pool if not any(v is w for w in self.qv[r])]
        for gv, ans, py in ([] if self.opts.get("reuse_vars") else self.saved.get(r, [])[:8]):
            # C13: the run has ended, so what it returned can only contain variables of this run or of
            # finished uses of stored facts; nobody may bind those any more
            if len(self.frozen) < 40:
                try:
                    self.frozen.append((r, gv, project_raw_tuple(gv)))
                except (CyclicBinding, RecursionError):
                    pass
        for gv, ans, py in self.saved.pop(r, []):
            for i, a in enumerate(ans):
                if not is_ground_image(a):
                    continue
                now = project_raw(gv[i], {})
                try:
                    pynow = py_image(engine.to_python(gv[i]))
                except Exception as e:
                    pynow = {"exception": type(e).__name__}
                if now != a or pynow != py[i]:
                    bad.append({"at_answer": a, "now": now, "py_at_answer": py[i], "py_now": pynow})
        return bad

    def check_frozen(self):
        """values returned by runs that have ended must keep denoting the same terms whatever runs later"""
        bad = []
        for r, gv, img in self.frozen:
            try:
                now = project_raw_tuple(gv)
            except (CyclicBinding, RecursionError):
                now = "cyclic"
            if now != img:
                bad.append({"run": r, "when_the_run_ended": img, "now": now})
        return bad

    def check_live(self):
        """the answer a suspended query is standing at does not change while other things run"""
        bad = []
        for r, img in self.live.items():
            try:
                now = project_tuple(self.qv[r])
            except (CyclicBinding, RecursionError):
                now = "cyclic"
            if now != img:
                bad.append({"run": r, "at_its_answer": img, "now": now})
        return bad

    def close(self, r, how):
        self.live.pop(r, None)
        cell = self.q[r]
        if how == "close":
            cell[0].close()
            return
        if how == "drop":
            cell.pop()
            return
        if how == "raise":
            # the consumer raises inside its loop; the generator is finalised when the
            # exception has been handled
            def consume(c):
                q = c.pop()
                for _ in q:
                    raise ConsumerError()
            # a suspended query: resume is not wanted, so emulate the loop body raising
            # right after the answer that was already delivered
            def consume_now(c):
                q = c.pop()
                raise ConsumerError()
            try:
                consume_now(cell)
            except ConsumerError:
                pass
            return
        if how == "break":
            def consume(c):
                q = c.pop()
                for _ in [1]:
                    break
            consume(cell)
            return
        raise ValueError(how)

    def apply(self, op):
        """perform op; return the observation"""
        k = op["op"]
        if k == "load" and op.get("extra") == "constants":
            # a script that was edited by hand: module-level names that are no predicate definitions, in the
            # middle and at the end.  Whether such a script loads is open; a load that raises must leave the
            # engine unchanged
            code = self.script_code(op["script"])
            parts = code.split("\ndef ")
            if len(parts) > 2:
                parts[1] = parts[1] + "\nMID_CONSTANT = 7\n"
            code = "\ndef ".join(parts) + "\nSCRIPT_VERSION = (1, 2)\nscript_authors = ['a', 'b']\n"
            yp = self.yps[op["e"] - 1]
            before = dict(yp.eval_context)
            try:
                yp.load_script_from_string(code, overwrite=op["ow"])
            except Exception as e:
                after = dict(yp.eval_context)
                changed = sorted(k2 for k2 in set(before) | set(after) if before.get(k2, self) is not after.get(k2, self))
                return {"k": "load-raised", "changed": changed, "exc": type(e).__name__}
            return {"k": "ok"}
        if k == "load" and op.get("collide"):
            pair = collide(self.script_code(op["collide"][0]), self.script_code(op["collide"][1]))
            self.yps[op["e"] - 1].load_script_from_string(pair[op["collide"].index(op["script"])], overwrite=op["ow"])
            return {"k": "ok"}
        if k == "load":
            code = self.script_code(op["script"])
            if self.opts.get("via_file"):
                # the documented file route: load_script_from_file is load_script_from_string on the file's text
                import tempfile
                fd, path = tempfile.mkstemp(suffix=".py", dir=os.path.join(os.path.dirname(os.path.dirname(os.path.abspath(__file__))), "work"))
                try:
                    with os.fdopen(fd, "w", encoding="utf-8") as f:
                        f.write(code)
                    self.yps[op["e"] - 1].load_script_from_file(path, overwrite=op["ow"])
                finally:
                    os.unlink(path)
                return {"k": "ok"}
            if self.opts.get("same_fn"):
                # the application passes one and the same file name for whatever it loads (the name is documentation)
                self.yps[op["e"] - 1].load_script_from_string(code, fn="program.py", overwrite=op["ow"])
                return {"k": "ok"}
            self.yps[op["e"] - 1].load_script_from_string(code, overwrite=op["ow"])
            return {"k": "ok"}
        if k == "loadfail":
            code = self.script_code(op["script"])
            bad = code + ("\nundefined_name_for_verif\n" if op.get("how", "raise") == "raise" else "\ndef (:\n")
            try:
                self.yps[op["e"] - 1].load_script_from_string(bad)
            except Exception:
                return {"k": "ok"}
            return {"k": "noraise"}
        if k == "register":
            yp = self.yps[op["e"] - 1]
            f = make_native(yp, op, self.nstate)
            style = op.get("style", "explicit")
            if style == "explicit-varargs":
                # a generic *args helper registered under an explicit arity (0 included)
                yp.register_function(op["name"], f, arity=op["arity"])
            elif op["arity"] < 0 or style == "variadic":
                yp.register_function(op["name"], f, arity=-1)
            elif style == "inferred":
                yp.register_function(op["name"], f)
            else:
                yp.register_function(op["name"], f, arity=op["arity"])
            return {"k": "ok"}
        if k == "assert":
            yp = self.yps[op["e"] - 1]
            env = {}
            if op["r"]:
                env = {i: v for i, v in enumerate(self.qv[op["r"]])}
            t = op["term"]
            args = [build(yp, a, env) for a in t.get("a", [])]
            yp.assert_fact(self.name_atom(yp, t["n"]), args, op["atEnd"])
            return {"k": "ok"}
        if k == "assertn":
            yp = self.yps[op["e"] - 1]
            for i in range(op["lo"], op["lo"] + op["n"]):
                yp.assert_fact(yp.atom(op["name"]), [int(str(i))], op["atEnd"])
            return {"k": "ok"}
        if k == "clear":
            self.yps[op["e"] - 1].clear()
            return {"k": "ok"}
        if k == "query":
            self.start_query(op)
            return {"k": "ok"}
        if k == "next":
            return self.one_next(op["r"])
        if k == "close":
            self.close(op["r"], op["how"])
            return {"k": "ok", "stale": self.check_saved(op["r"])}
        if k == "solve" and op.get("via"):
            return self.solve_evalb(op)
        if k in ("solve", "rest"):
            if k == "solve":
                self.start_query(op)
            r = op["r"]
            answers = []
            gvs, pys = [], []
            stale_list = None
            while True:
                o = self.one_next(r)
                if o["k"] == "answer":
                    answers.append(o["ans"])
                    gvs.append(o.get("gv")); pys.append(o.get("py"))
                    if o.get("makelist_stale"):
                        stale_list = o["makelist_stale"]
                    if op["k"] and len(answers) == op["k"]:
                        self.close(r, "close")
                        return {"k": "solve", "answers": answers, "end": "closed", "gvs": gvs, "pys": pys, "stale": self.check_saved(r), "makelist_stale": stale_list}
                else:
                    return {"k": "solve", "answers": answers, "end": o["k"], "exc": o.get("exc"), "gvs": gvs, "pys": pys, "stale": self.check_saved(r), "makelist_stale": stale_list}
        raise ValueError(k)

    def solve_evalb(self, op):
        """the same consumer written with evaluate_bounded: the projection function looks at the answer and,
        where the step abandons the query after k answers, raises (kinds: an ordinary exception, or
        KeyboardInterrupt / SystemExit / GeneratorExit, which are no `Exception`)"""
        import sys as _sys
        via = op["via"]
        self.start_query(op)
        r = op["r"]
        yp = self.yps[op["e"] - 1]
        answers, gvs, pys = [], [], []

        class _Abandon(Exception):
            pass
        kinds = {"Exception": _Abandon, "KeyboardInterrupt": KeyboardInterrupt, "SystemExit": SystemExit, "GeneratorExit": GeneratorExit}
        exc = kinds[via.get("exc", "Exception")]

        def proj(_):
            # (the accessor first: under a low limit it is the engine's own dereferencing that runs out of stack)
            gv = [engine.get_value(v) for v in self.qv[r]]
            answers.append(project_tuple(self.qv[r]))
            gvs.append(project_raw_tuple(gv))
            row = []
            for v in self.qv[r]:
                try:
                    row.append(py_image(engine.to_python(v)))
                except Exception as e:
                    row.append({"exception": type(e).__name__})
            pys.append(row)
            self.saved.setdefault(r, []).append((gv, answers[-1], row))
            if op["k"] and len(answers) == op["k"]:
                raise exc()
            return len(answers)
        before = _sys.getrecursionlimit()
        end = "stop"
        try:
            if via.get("limit"):
                res = yp.evaluate_bounded(self.q[r][0], proj, recursion_limit=via["limit"])
            else:
                res = yp.evaluate_bounded(self.q[r][0], proj)
        except exc:
            end = "closed"
            res = None
        after = _sys.getrecursionlimit()
        _sys.setrecursionlimit(before)
        out = {"k": "solve", "answers": answers, "end": end, "gvs": gvs, "pys": pys, "stale": self.check_saved(r), "makelist_stale": None}
        if after != before:
            out["limit_after"] = [before, after]
        if res is not None and res != list(range(1, len(res) + 1)):
            out["bad_result"] = repr(res)[:200]
        if res is not None and len(res) != len(answers):
            out["bad_result"] = "%d results for %d answers" % (len(res), len(answers))
        return out

    def snapshot(self):
        return {"dbs": [project_db(yp, self.keys) for yp in self.yps]}

    def finish(self):
        for r, cell in self.q.items():
            if cell:
                try:
                    cell[0].close()
                except Exception:
                    pass
        self.q.clear()
        if self.opts.get("reclimit"):
            import sys as _sys
            _sys.setrecursionlimit(self.prev_limit)
        global FOREIGN
        FOREIGN = False
        if self.log_handler is not None:
            import logging
            lg = logging.getLogger("yldprolog")
            lg.removeHandler(self.log_handler)
            lg.setLevel(self.log_prev[0])
            lg.propagate = self.log_prev[1]
            self.log_handler = None
