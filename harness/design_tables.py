"""regenerates the generated parts of DESIGN.md section 0 (seeded-changes table, sizes table)
usage: python3 -m harness.design_tables <selftest log> [thorough log]"""
import glob
import json
import os
import re
import sys

VERIF = os.path.dirname(os.path.dirname(os.path.abspath(__file__)))


def seeded_table(logfile):
    res = {}
    for line in open(logfile):
        m = re.match(r"(ok|MISSED|FALSE-ALARM|ERROR)\s+(\S+)\s+(C\d\d)?\s*exit=(\d)", line)
        if m:
            res.setdefault(m.group(2), {})[m.group(3)] = (m.group(1), m.group(4))
    rows = ["| seeded change | what it changes | what it needs in order to manifest | detected by (quick tier unless noted) |", "|---|---|---|---|"]
    n = ok = 0
    for d in sorted(glob.glob(os.path.join(VERIF, "seeded", "C*"))):
        name = os.path.basename(d)
        meta = json.load(open(os.path.join(d, "meta.json")))
        r = res.get(name, {})
        det = ", ".join("%s%s" % (c, "" if v[0] == "ok" else " (**missed**)") for c, v in sorted(r.items())) or "not run"
        if meta.get("tier") == "thorough":
            det += " (thorough tier; the quick tier does not reach this size)"
        n += 1
        ok += 1 if any(v[0] == "ok" for v in r.values()) else 0
        rows.append("| `%s` | %s | %s | %s |" % (name, meta.get("summary", "").replace("|", "/"), meta.get("needs_to_manifest", "").replace("|", "/"), det))
    neutral = ["| behaviour-preserving change | checks run | result |", "|---|---|---|"]
    for d in sorted(glob.glob(os.path.join(VERIF, "seeded", "_neutral-*"))):
        name = os.path.basename(d)
        meta = json.load(open(os.path.join(d, "meta.json")))
        r = res.get(name, {})
        neutral.append("| `%s`: %s | %s | %s |" % (name, meta.get("summary", ""), ", ".join(sorted(r)), "silent" if r and all(v[0] == "ok" for v in r.values()) else "see log"))
    return "\n".join(rows), "\n".join(neutral), n, ok


def sizes_table(thorough_log=None):
    th = {}
    if thorough_log and os.path.exists(thorough_log):
        for line in open(thorough_log):
            m = re.match(r"(C\d\d) tier=thorough: (\d+) behaviours replayed, (\d+) tlc states, (\d+) violations.*?, ([\d.]+)s", line)
            if m:
                th[m.group(1)] = (m.group(2), m.group(3), m.group(5))
    rows = ["| id | quick: TLC states | quick: cases checked against the code | quick: wall s | thorough: TLC states | thorough: wall s |", "|---|---|---|---|---|---|"]
    for f in sorted(glob.glob(os.path.join(VERIF, "evidence", "C*.json"))):
        e = json.load(open(f))
        c = e["coverage"]
        t = th.get(e["property_id"], ("", "", ""))
        rows.append("| %s | %s | %s | %s | %s | %s |" % (e["property_id"], c.get("states"), c.get("traces_validated_against_impl"), e["wall_s"], t[1], t[2]))
    return "\n".join(rows)


if __name__ == "__main__":
    st, nt, n, ok = seeded_table(sys.argv[1])
    print(st)
    print()
    print(nt)
    print()
    print("%d of %d seeded changes detected" % (ok, n))
    print()
    print(sizes_table(sys.argv[2] if len(sys.argv) > 2 else None))
