"""bin/selftest: run the owning checks against scratch copies of the repository with the seeded
changes applied; also the behaviour-preserving patches (seeded/_neutral/*.diff) which must NOT be
reported."""
import json
import os
import shutil
import subprocess
import sys
import tempfile
import concurrent.futures

VERIF = os.path.dirname(os.path.dirname(os.path.abspath(__file__)))
SEEDED = os.path.join(VERIF, "seeded")


def run_one(name, tier):
    d = os.path.join(SEEDED, name)
    meta = json.load(open(os.path.join(d, "meta.json")))
    wt = tempfile.mkdtemp(prefix="yld-selftest-", dir="/var/tmp")
    os.rmdir(wt)
    out = {"name": name, "results": {}}
    try:
        subprocess.run(["git", "-C", "/repo", "worktree", "add", "-q", "--detach", wt, "HEAD"], check=True, capture_output=True)
        r = subprocess.run(["git", "-C", wt, "apply", os.path.join(d, "patch.diff")], capture_output=True, text=True)
        if r.returncode != 0:
            out["error"] = "patch does not apply: " + r.stderr[-300:]
            return out
        for chk in meta.get("checks") or [meta["property"]]:
            env = dict(os.environ)
            env["YLDPROLOG_REPO"] = wt
            ev = os.path.join(VERIF, "work", "selftest", name)
            os.makedirs(ev, exist_ok=True)
            env["VERIF_EVIDENCE_DIR"] = ev
            env["VERIF_REPLAY_DIR"] = ev
            p = subprocess.run([os.path.join(VERIF, "bin", "check"), chk, "--tier", meta.get("tier", tier)], env=env, capture_output=True, text=True, timeout=7200)
            with open(os.path.join(ev, chk + ".out"), "w") as f:
                f.write(p.stdout[-20000:] + "\n--- stderr ---\n" + p.stderr[-5000:])
            lines = [l for l in p.stdout.splitlines() if l.startswith("VIOLATION") or l.startswith("MACHINERY")]
            out["results"][chk] = {"exit": p.returncode, "violations": len(lines), "first": (p.stdout.splitlines()[1] if len(p.stdout.splitlines()) > 1 else "")[:200]}
    finally:
        subprocess.run(["git", "-C", "/repo", "worktree", "remove", "--force", wt], capture_output=True)
        shutil.rmtree(wt, ignore_errors=True)
    return out


def main():
    args = [a for a in sys.argv[1:] if not a.startswith("--")]
    tier = "thorough" if "--thorough" in sys.argv else "quick"
    names = args or sorted(n for n in os.listdir(SEEDED) if os.path.exists(os.path.join(SEEDED, n, "meta.json")))
    bad = 0
    with concurrent.futures.ThreadPoolExecutor(int(os.environ.get("SELFTEST_PAR", "2"))) as ex:
        for res in ex.map(lambda n: run_one(n, tier), names):
            neutral = res["name"].startswith("_neutral")
            if "error" in res:
                print("ERROR    %-40s %s" % (res["name"], res["error"]))
                bad += 1
                continue
            for chk, r in res["results"].items():
                caught = r["exit"] == 1
                ok = (not caught) if neutral else caught
                if r["exit"] == 2:
                    ok = False
                print("%-8s %-40s %s exit=%d %s" % ("ok" if ok else "MISSED" if not neutral else "FALSE-ALARM", res["name"], chk, r["exit"], r["first"]))
                if not ok:
                    bad += 1
    sys.exit(1 if bad else 0)


if __name__ == "__main__":
    main()
