"""Common machinery of the checks: accumulate what was explored, classify disagreements
against the committed known-findings file, write replay files and the evidence file, and
produce the verdict (exit code + VIOLATION / KNOWN-FINDING lines)."""
import collections
import hashlib
import json
import os
import subprocess
import sys
import time

from . import tlc, replay

VERIF = tlc.VERIF
WORK = tlc.WORK
REPLAYS = os.environ.get("VERIF_REPLAY_DIR") or os.path.join(VERIF, "replays")
EVIDENCE = os.environ.get("VERIF_EVIDENCE_DIR") or os.path.join(VERIF, "evidence")
REPO = os.environ.get("YLDPROLOG_REPO", "/repo")


def git_rev(path):
    try:
        h = subprocess.run(["git", "-C", path, "rev-parse", "--short", "HEAD"], capture_output=True, text=True).stdout.strip()
        d = subprocess.run(["git", "-C", path, "status", "--porcelain"], capture_output=True, text=True).stdout.strip()
        return h + ("+dirty" if d else "")
    except Exception:
        return "?"


def load_findings():
    p = os.path.join(VERIF, "known_findings.json")
    if not os.path.exists(p):
        return []
    return json.load(open(p))["findings"]


def _goal_shape(op):
    g = op.get("goal") or op.get("term") or {}
    return {"goal_name": g.get("n"), "goal_arity": len(g.get("a", []))}


def finding_matches(f, prop, v):
    """a finding's `match` is a conjunction of equalities / prefix tests over the violation record"""
    if f["property"] != prop or f.get("status") != "open":
        return False
    m = f.get("match", {})
    feats = dict(v.get("features", {}))
    feats["kind"] = v.get("kind")
    feats["detail"] = v.get("detail", "")
    for k, want in m.items():
        if k.endswith("_prefix"):
            if not str(feats.get(k[:-7], "")).startswith(want):
                return False
        elif k.endswith("_contains"):
            if want not in str(feats.get(k[:-9], "")):
                return False
        elif k.endswith("_in"):
            if feats.get(k[:-3]) not in want:
                return False
        else:
            if feats.get(k) != want:
                return False
    return True


class Check:
    def __init__(self, prop, tier, seed):
        self.prop = prop
        self.tier = tier
        self.seed = seed
        self.t0 = time.time()
        self.states = 0
        self.transitions = 0
        self.replayed = 0
        self.validated_traces = 0
        self.evaluations = 0
        self.nontrivial = set()
        self.truncated = collections.Counter()
        self.samples = []
        self.events = collections.Counter()
        self.violations = []          # unmatched
        self.known = collections.OrderedDict()   # key -> (finding, count)
        self.masked = 0
        self.spec_props = []
        self.families = []
        self.notes = []
        self.drift = []
        self.exhaustive = None
        self.assumptions = []
        self.machinery_errors = []
        self.findings = load_findings()
        self.extra = {}
        os.makedirs(WORK, exist_ok=True)

    # ------------------------------------------------------------ accumulation
    def add_tlc(self, res, props=()):
        self.states += res.distinct
        self.transitions += res.generated
        for p in props:
            if p not in self.spec_props:
                self.spec_props.append(p)

    def add_sample(self, s):
        if len(self.samples) < 4:
            self.samples.append(s)

    def violation(self, v):
        """v: {"kind","detail","features",...}; classify against known findings"""
        for f in self.findings:
            if finding_matches(f, self.prop, v):
                k = f["key"]
                if k not in self.known:
                    self.known[k] = [f, 0]
                self.known[k][1] += 1
                self.masked += 1
                return False
        self.violations.append(v)
        return True

    # ------------------------------------------------------------ the common S->C pipeline
    def machine_family(self, name, scns, opts=None, spec="YP", cfg="YP.cfg", max_steps=None,
                       props=("CleanAfterEnd", "FactIdsUnique", "FactsWellKeyed", "BarriersOK", "SnapshotsOK"),
                       features=None, workers=16, post=None, opts_list=None):
        """scns: list of scenario dicts (ids are assigned here).  TLC explores every behaviour
        of every scenario and prints it with the predicted observations; each behaviour is
        replayed on the real code."""
        opts = opts or {}
        tmpcfg = None
        if max_steps:
            # a family that needs more fuel than the default: same configuration, larger MaxSteps
            base = open(os.path.join(tlc.SPEC, cfg)).read()
            import re as _re
            tmpcfg = "%s-%d-%d.cfg" % (cfg[:-4], max_steps, os.getpid())
            with open(os.path.join(tlc.SPEC, tmpcfg), "w") as f:
                f.write(_re.sub(r"MaxSteps = \d+", "MaxSteps = %d" % max_steps, base))
            cfg = tmpcfg
        for i, s in enumerate(scns):
            s["id"] = i + 1
            s.setdefault("engines", 1)
            s.setdefault("scripts", {})
            s.setdefault("keys", [])
        # moderate scenario files, several TLC processes side by side
        chunks = []
        cur, size = [], 0
        for s in scns:
            b = len(json.dumps(s))
            if cur and (size + b > 6000000 or len(cur) >= 2500):
                chunks.append(cur); cur, size = [], 0
            cur.append(s); size += b
        if cur:
            chunks.append(cur)
        par = 1 if len(chunks) == 1 else min(4, len(chunks))
        w = max(2, workers // par)

        tmo = 420 if self.tier == "quick" else 2400

        def run_chunk(args, depth=0):
            """returns a list of TLCResult; a chunk on which TLC does not finish within the watchdog time is
            split (a single scenario that does not finish is skipped and reported in the evidence: the
            specification could not decide it in reasonable time, which is not a verdict about the code)"""
            ci, chunk = args
            base = chunk[0]["id"] - 1
            local = []
            for k, s in enumerate(chunk):
                t = dict(s); t["id"] = k + 1; local.append(t)
            fn = os.path.join(WORK, "%s-%s-%d-%s.json" % (self.prop, name, os.getpid(), ci))
            with open(fn, "w") as f:
                json.dump(tlc.enc_json(local), f)
            try:
                r = tlc.run(spec, cfg, env={"SCN_FILE": fn}, tag="%s-%s-%d-%s" % (self.prop, name, os.getpid(), ci), workers=w,
                            timeout=max(60, tmo // (2 ** depth)))
            except tlc.TLCError as e:
                if "watchdog" not in str(e):
                    raise
                if len(chunk) == 1:
                    self.notes.append("family %s: scenario %d skipped, TLC did not finish it within the watchdog time" % (name, chunk[0]["id"]))
                    self.truncated["tlc-timeout"] += 1
                    return []
                h = len(chunk) // 2
                return run_chunk(("%sa" % ci, chunk[:h]), depth + 1) + run_chunk(("%sb" % ci, chunk[h:]), depth + 1)
            finally:
                if os.path.exists(fn):
                    os.unlink(fn)
            ids = [s["id"] for s in chunk]
            for rec in r.records:
                rec["id"] = ids[rec["id"] - 1]
            return [r]
        import concurrent.futures
        with concurrent.futures.ThreadPoolExecutor(par) as ex:
            parts = [r for rs in ex.map(run_chunk, enumerate(chunks)) for r in rs]
        if tmpcfg:
            try:
                os.unlink(os.path.join(tlc.SPEC, tmpcfg))
            except OSError:
                pass
        res = tlc.TLCResult()
        for r in parts:
            res.records.extend(r.records)
            res.generated += r.generated
            res.distinct += r.distinct
            res.wall = max(res.wall, r.wall)
        self.add_tlc(res, props)
        recs = res.records
        items = [(scns[r["id"] - 1], r, o) for r in recs for o in (opts_list or [opts])]
        results = replay.replay_all(items)
        fam = {"family": name, "scenarios": len(scns), "behaviours": len(recs), "tlc_states": res.distinct,
               "tlc_s": round(res.wall, 1), "ok": 0, "truncated": 0, "violating": 0}
        for (scn, rec, _), r in zip(items, results):
            self.evaluations += 1
            for e in rec.get("evs", []):
                self.events[e] += 1
            if r["status"] == "error":
                self.machinery_errors.append(r["detail"])
                continue
            if r["status"] == "truncated" and _.get("must_complete"):
                # a family built to be decided completely (sizes within the documented limits)
                if r.get("why") in ("budget", "cyclic", "unspec"):
                    self.machinery_errors.append("family %s: the specification could not decide scenario %s (%s)" % (name, rec.get("id"), r.get("why")))
                    continue
                r = dict(r)
                r.update(status="violation", kind="refused", detail="a program within the documented size limits was refused (%s)" % r.get("why"),
                         op={"op": "load"}, expected=None, observed=None)
            if r["status"] == "truncated":
                fam["truncated"] += 1
                self.truncated[r.get("why")] += 1
            if r["status"] in ("ok", "truncated"):
                self.replayed += 1
                fam["ok"] += 1
                if r.get("nontrivial"):
                    self.nontrivial.add(hashlib.sha1(replay.norm([scn.get("scripts"), [h["op"] for h in rec["hist"]]]).encode()).hexdigest())
                if post:
                    post(self, scn, rec, r)
                continue
            fam["violating"] += 1
            self.replayed += 1
            v = dict(r)
            v["family"] = name
            v["scenario"] = scn
            v["record"] = rec
            v["opts"] = _
            feats = {"op": r.get("op", {}).get("op"), "family": name}
            feats.update(_goal_shape(r.get("op", {})))
            if features:
                feats.update(features(scn, rec, r) or {})
            v["features"] = feats
            self.violation(v)
        if recs:
            self.add_sample({"family": name, "scenario_scripts": {k: __import__("harness.terms", fromlist=["x"]).render_script(v) for k, v in scns[recs[0]["id"] - 1].get("scripts", {}).items()},
                             "ops": [h["op"] for h in recs[0]["hist"]][:8],
                             "predicted": [h["obs"] for h in recs[0]["hist"]][:8]})
        self.families.append(fam)
        return recs, results

    # ------------------------------------------------------------ verdict
    def write_replay(self, v):
        os.makedirs(REPLAYS, exist_ok=True)
        body = {"property": self.prop, "tier": self.tier, "seed": self.seed,
                "repo": git_rev(REPO), "verif": git_rev(VERIF)}
        body.update({k: v[k] for k in v if k not in ("record",)})
        body["record"] = v.get("record")
        blob = json.dumps(body, sort_keys=True, default=str)
        sha = hashlib.sha1(blob.encode()).hexdigest()[:12]
        p = os.path.join(REPLAYS, "%s-%s.json" % (self.prop, sha))
        with open(p, "w") as f:
            f.write(json.dumps(body, indent=1, sort_keys=True, default=str))
        return p

    def finish(self, level="model_checking", rule=None, explanation=None):
        wall = time.time() - self.t0
        if self.machinery_errors:
            print("MACHINERY-ERROR property=%s %s" % (self.prop, self.machinery_errors[0][:2000]))
        # group unmatched violations by a signature so that one root cause prints one line
        groups = collections.OrderedDict()
        for v in self.violations:
            sig = (v.get("family"), v.get("kind"), str(v.get("detail"))[:60], str(v.get("features", {}).get("op")),
                   str(v.get("features", {}).get("goal_name")))
            groups.setdefault(sig, []).append(v)
        for k, (f, n) in self.known.items():
            print("KNOWN-FINDING: property=%s %s [%s; %d behaviours cut short by it]" % (self.prop, f["what"], k, n))
        shown = 0
        for sig, vs in groups.items():
            if shown >= 12:
                break
            p = self.write_replay(vs[0])
            print("VIOLATION property=%s replay=%s" % (self.prop, p))
            print("  # %d behaviours; family=%s kind=%s detail=%s op=%s goal=%s" % ((len(vs),) + sig))
            shown += 1
        cov = {
            "states": max(self.states, 0),
            "transitions": max(self.transitions, 0),
            "traces_validated_against_impl": self.replayed + self.validated_traces,
            "samples": self.samples or [{"note": "no behaviour was emitted"}],
            "evaluations": self.evaluations,
            "distinct_nontrivial": len(self.nontrivial),
            "rule": rule or ("every behaviour TLC emitted (scenario x environment choices) is one evaluation; "
                             "non-trivial = at least one answer delivered or one fact asserted; "
                             "distinct = different (program, operation sequence) after canonicalisation"),
            "spec_properties_checked_by_tlc": self.spec_props,
            "families": self.families,
            "spec_step_coverage": dict(sorted(self.events.items())),
            "truncated_unspecified_or_fuel": dict(self.truncated),
            "masked_by_known_finding": self.masked,
            "known_findings_hit": list(self.known.keys()),
            "unmatched_violations": len(self.violations),
            "spec_drift": self.drift,
            "notes": self.notes,
            "repo": git_rev(REPO),
        }
        cov.update(self.extra)
        if self.exhaustive is not None:
            cov["exhaustive"] = self.exhaustive
        if explanation:
            cov["explanation"] = explanation
        ev = {"property_id": self.prop, "tier": self.tier, "seed": self.seed, "level": level,
              "coverage": cov, "assumptions": self.assumptions, "wall_s": round(wall, 2),
              "violations": len(self.violations)}
        os.makedirs(EVIDENCE, exist_ok=True)
        with open(os.path.join(EVIDENCE, self.prop + ".json"), "w") as f:
            json.dump(ev, f, indent=1, sort_keys=True, default=str)
        print("%s tier=%s: %d behaviours replayed, %d tlc states, %d violations (%d groups), %d known, %.1fs" %
              (self.prop, self.tier, self.replayed, self.states, len(self.violations), len(groups), self.masked, wall))
        if self.machinery_errors:
            return 2
        return 1 if self.violations else 0
