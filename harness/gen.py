"""Seeded generators of programs and scenarios (the parts of the input space that are not
enumerated by TLC itself).  Variables carry sorts so that random programs rarely need
cyclic terms or call non-callable goals (the properties leave those open)."""
import random

from .terms import A, I, V, C, NIL, lst, clause, call, and_, or_, then, not_, TRUE, FAIL, CUT, term_vars, body_vars

ANON = 900   # variable ids >= ANON are rendered as `_` (each must occur once per clause)


class Cl:
    """clause under construction: allocates variables with sorts"""

    def __init__(self, rnd):
        self.rnd = rnd
        self.vars = []     # list of sorts
        self.anon = 0
        self.ops = False
        self.rich = False

    def var(self, sort, fresh_p=0.3):
        cands = [i for i, so in enumerate(self.vars) if so == sort]
        if cands and self.rnd.random() > fresh_p:
            return V(self.rnd.choice(cands))
        self.vars.append(sort)
        return V(len(self.vars) - 1)

    def anonvar(self):
        self.anon += 1
        return V(ANON + self.anon - 1)

    def t0(self):
        r = self.rnd.random()
        if self.rich and r < 0.08:
            # unusual shapes: atoms that need quotes, the empty-list atom, big integers, a compound without arguments
            return self.rnd.choice([A("two words"), A("it's"), A("\u00e9t\u00e9"), A("[]"), A("A"), A("_x"), I(0), I(10 ** 15), {"t": "c", "n": "e", "a": []}, A("e")])
        if r < 0.45:
            return A(self.rnd.choice("abc"))
        if r < 0.55:
            return I(self.rnd.choice([1, 2]))
        if r < 0.60:
            return self.anonvar()
        return self.var(0)

    def t1(self):
        r = self.rnd.random()
        if self.ops and r < 0.06:
            # operator terms: ordinary compound terms written with the grammar's BINOP/UNOP syntax
            if self.rnd.random() < 0.7:
                return C(self.rnd.choice(["<", ">", "==", "=<", ">=", "\\=="]), self.t0(), self.t0())
            return C(self.rnd.choice("+-"), self.t0())
        if r < 0.35:
            return self.t0()
        if r < 0.5:
            return C("f", self.t0())
        if r < 0.6:
            return C("g", self.t0(), self.t0())
        if r < 0.7:
            return lst([self.t0() for _ in range(self.rnd.randint(0, 2))])
        if r < 0.75:
            # list patterns with one to three terms before the bar
            return lst([self.t0() for _ in range(self.rnd.choice([1, 1, 2, 3]))], self.var(1))
        return self.var(1)


SIG = {"p": (1,), "q": (0, 1), "r": (), "s": (0,), "d": (1,), "e": (0, 0)}
USER = ["p", "q", "r", "s"]
DYN = ["d", "e"]
DYNKEYS = [{"n": "d", "k": 1}, {"n": "e", "k": 2}]


def atomcall(c, name):
    sig = SIG[name]
    args = [c.t1() if so == 1 else c.t0() for so in sig]
    return A(name) if not args else C(name, *args)


def goal(c, depth, cutok, frag):
    """frag: set of allowed features among
       'ctl' (;, ->, \\+), 'cut', 'db' (assert/retract), 'meta' (call/once/findall), 'dyn' (calls to dynamic preds)"""
    rnd = c.rnd
    r = rnd.random()
    if depth <= 0 or r < 0.4:
        for _ in range(20):
            k = rnd.random()
            if k < 0.35:
                return call(atomcall(c, rnd.choice(USER)))
            if k < 0.45:
                if "dyn" in frag:
                    return call(atomcall(c, rnd.choice(DYN)))
                continue
            if k < 0.55:
                return call(C("=", c.t1(), c.t1()))
            if k < 0.60:
                return call(C("\\=", c.t1(), c.t1()))
            if k < 0.62 and c.ops:
                # a comparison operator as a goal: an ordinary call of a predicate nobody defines
                return call(C(rnd.choice(["<", ">", "==", ">="]), c.t0(), c.t0()))
            if k < 0.64:
                return TRUE
            if k < 0.68:
                return FAIL
            if k < 0.73:
                if cutok and "cut" in frag:
                    return CUT
                continue
            if k < 0.88:
                if "db" not in frag:
                    continue
                if k < 0.80:
                    return call(C(rnd.choice(["assertz", "asserta"]), atomcall(c, rnd.choice(DYN))))
                if k < 0.85:
                    return call(C("retract", atomcall(c, rnd.choice(DYN))))
                return call(C("retractall", atomcall(c, rnd.choice(DYN))))
            if "meta" not in frag:
                continue
            pool = USER + (DYN if "dyn" in frag else [])
            if k < 0.92:
                return call(C("once", atomcall(c, rnd.choice(pool))))
            if k < 0.96:
                g = atomcall(c, rnd.choice(pool))
                args = g.get("a", [])
                n = rnd.randint(0, len(args))
                head = A(g["n"]) if n == 0 else C(g["n"], *args[:n])
                return call(C("call", head, *args[n:]))
            c.vars.append(2)
            L = V(len(c.vars) - 1)
            return call(C("findall", c.t1(), atomcall(c, rnd.choice(pool)), L))
        return TRUE
    if "ctl" not in frag or r < 0.6:
        return and_(goal(c, depth - 1, cutok, frag), goal(c, depth - 1, cutok, frag))
    if r < 0.72:
        return or_(goal(c, depth - 1, cutok, frag), goal(c, depth - 1, cutok, frag))
    if r < 0.84:
        return or_(then(goal(c, depth - 1, False, frag), goal(c, depth - 1, cutok, frag)), goal(c, depth - 1, cutok, frag))
    if r < 0.9:
        return then(goal(c, depth - 1, False, frag), goal(c, depth - 1, cutok, frag))
    return not_(goal(c, depth - 1, False, frag))


def fix_plain_or(b):
    """a generated plain disjunction whose left operand happens to be a bare if-then would be read as
    if-then-else (by the language, and by the spec); that is fine - both sides agree - nothing to fix"""
    return b


def mk_clause(rnd, name, fact, frag, depth=3):
    c = Cl(rnd)
    c.ops = "ops" in frag
    c.rich = "rich" in frag
    h = atomcall(c, name)
    body = TRUE if fact else goal(c, rnd.randint(1, depth), True, frag)
    cl = {"h": h, "body": body, "nv": 0}
    vs = term_vars(h)
    body_vars(body, vs)
    cl["nv"] = (max(vs) + 1) if vs else 0
    return cl


def program(rnd, frag, nclauses=3, depth=3):
    defs = {}
    for name in USER:
        n = rnd.randint(0, nclauses)
        cls = [mk_clause(rnd, name, rnd.random() < 0.6, frag, depth) for _ in range(n)]
        if cls:
            defs["%s/%d" % (name, len(SIG[name]))] = cls
    c = Cl(rnd)
    c.ops = "ops" in frag
    c.rich = "rich" in frag
    c.vars = [1, 1]
    body = goal(c, depth, True, frag)
    cl = {"h": C("top", V(0), V(1)), "body": body}
    vs = [0, 1]
    body_vars(body, vs)
    cl["nv"] = max(vs) + 1
    defs["top/2"] = [cl]
    if rnd.random() < 0.4:
        c2 = Cl(rnd)
        c2.vars = [1, 1]
        b2 = goal(c2, max(depth - 1, 1), True, frag)
        vs = [0, 1]
        body_vars(b2, vs)
        defs["top/2"].append({"h": C("top", V(0), V(1)), "body": b2, "nv": max(vs) + 1})
    return defs


def random_scenario(rnd, frag, nclauses=3, depth=3, k=0):
    defs = program(rnd, frag, nclauses, depth)
    q = rnd.random()
    if q < 0.6:
        goal_t, qnv = C("top", V(0), V(1)), 2
    elif q < 0.8:
        goal_t, qnv = C("top", A(rnd.choice("abc")), V(0)), 1
    else:
        goal_t, qnv = C("top", V(0), lst([V(1)], V(2))), 3
    steps = [[{"op": "load", "e": 1, "script": "P", "ow": True}],
             [{"op": "solve", "e": 1, "r": 1, "goal": goal_t, "qnv": qnv, "k": k}]]
    return {"scripts": {"P": defs}, "steps": steps, "keys": DYNKEYS}


# ---------------------------------------------------------------- data-dependent control bodies
def dd_scenario(rnd, maxdepth=4):
    """a clause body over generators g(V) and tests tS(V) on SHARED variables, so that the outcome of a
    condition differs between the entries of a construct (nested if-then-else / negation inside
    conditions, re-entered by a preceding generator goal)"""
    X, Y, R = V(0), V(1), V(2)
    tests = {"t1": [1], "t12": [1, 2], "t23": [2, 3], "t3": [3], "t13": [1, 3]}
    marks = [0]

    def mark():
        marks[0] += 1
        return call(C("=", R, A("m%d" % marks[0])))

    def leaf(cond):
        r = rnd.random()
        v = X if rnd.random() < 0.6 else Y
        if r < 0.30:
            return call(C("g", v))
        if r < 0.65:
            return call(C(rnd.choice(sorted(tests)), v))
        if r < 0.72:
            return call(C("=", v, I(rnd.randint(1, 3))))
        if r < 0.80 and not cond:
            return mark()
        if r < 0.86:
            return TRUE
        if r < 0.92:
            return FAIL
        if not cond and r < 0.96:
            return CUT
        return call(C("none", v))

    def tree(d, cond):
        r = rnd.random()
        if d <= 0 or r < 0.22:
            return leaf(cond)
        if r < 0.50:
            return and_(tree(d - 1, cond), tree(d - 1, cond))
        if r < 0.62:
            return or_(tree(d - 1, cond), tree(d - 1, cond))
        if r < 0.84:
            return or_(then(tree(d - 1, True), tree(d - 1, cond)), tree(d - 1, cond))
        if r < 0.90:
            return then(tree(d - 1, True), tree(d - 1, cond))
        return not_(tree(d - 1, True))

    body = and_(call(C("g", X)), tree(rnd.randint(2, maxdepth), False)) if rnd.random() < 0.5 else tree(rnd.randint(2, maxdepth), False)
    script = {"g/1": [clause(C("g", I(i))) for i in (1, 2, 3)],
              "t/3": [{"h": C("t", X, Y, R), "body": body, "nv": 3}, clause(C("t", A("z"), A("z"), A("z")))]}
    for n, vals in tests.items():
        script[n + "/1"] = [clause(C(n, I(i))) for i in vals]
    steps = [[{"op": "load", "e": 1, "script": "P", "ow": True}],
             [{"op": "solve", "e": 1, "r": 1, "goal": C("t", V(0), V(1), V(2)), "qnv": 3, "k": 0}]]
    return {"scripts": {"P": script}, "steps": steps, "keys": []}


# ---------------------------------------------------------------- random API sessions
def api_session(rnd, engines=1, length=10):
    """a random sequence of API operations (loads, registrations, asserts through both routes, queries
    advanced step by step, abandoned, interleaved with updates, clears) over unusual term shapes; the
    machine spec/YP.tla decides every step"""
    X, Y = V(0), V(1)
    atoms = ["a", "b", "it's", "two words", "é", "[]", "A", "_u", "x1", "true"]

    def term(d=2, nv=2):
        r = rnd.random()
        if d <= 0 or r < 0.35:
            k = rnd.random()
            if k < 0.5:
                return A(rnd.choice(atoms))
            if k < 0.65:
                return I(rnd.choice([0, 1, 42, 10 ** 12]))
            return V(rnd.randrange(nv))
        if r < 0.6:
            return C(rnd.choice(["f", "g", "two words"]), *[term(d - 1, nv) for _ in range(rnd.randint(1, 3))])
        if r < 0.85:
            return lst([term(d - 1, nv) for _ in range(rnd.randint(0, 3))])
        return lst([term(d - 1, nv)], V(rnd.randrange(nv)))

    scripts = {
        "S1": {"p/1": [clause(C("p", A("s1"))), clause(C("p", X), call(C("d", X)))],
               "r/2": [clause(C("r", X, Y), conj_(call(C("p", X)), call(C("p", Y)), call(C("\\=", X, Y))))]},
        "S2": {"p/1": [clause(C("p", C("f", X)), and_(call(C("q", X)), CUT)), clause(C("p", A("s2")))],
               "q/1": [clause(C("q", I(1))), clause(C("q", I(2)))]},
        "S3": {"r/2": [clause(C("r", X, X))], "z/0": [clause(A("z"), call(C("assertz", C("d", A("fromz")))))],
               "q/1": [clause(C("q", X), or_(then(call(C("d", X)), TRUE), call(C("=", X, A("none")))))]},
    }
    steps = []
    live = []
    rid = [0]

    def newr():
        rid[0] += 1
        return rid[0]
    for i in range(length):
        e = rnd.randint(1, engines)
        k = rnd.random()
        if k < 0.12:
            steps.append([{"op": "load", "e": e, "script": rnd.choice(sorted(scripts)), "ow": rnd.random() < 0.6}])
        elif k < 0.27:
            t = rnd.choice([C("d", term(2)), C("d", term(1), term(1)), A("flag"), C("p", term(1)), C("e", V(0), V(0))])
            if rnd.random() < 0.5:
                steps.append([{"op": "assert", "e": e, "term": t, "atEnd": rnd.random() < 0.7, "r": 0}])
            else:
                steps.append([{"op": "solve", "e": e, "r": newr(), "goal": C(rnd.choice(["assertz", "asserta"]), t), "qnv": 2, "k": 0}])
        elif k < 0.45:
            g = rnd.choice([C("p", X), C("r", X, Y), C("d", X), C("d", X, Y), C("q", X), A("z"), A("flag"), C("e", A("a"), X),
                            C("findall", X, C("d", X), Y), C("call", A("p"), X), C("once", C("d", X)), C("d", term(1)), C("p", term(1))])
            steps.append([{"op": "solve", "e": e, "r": newr(), "goal": g, "qnv": 2, "k": rnd.choice([0, 0, 1, 2])}])
        elif k < 0.58:
            g = rnd.choice([C("retract", C("d", X)), C("retract", C("d", term(1))), C("retractall", C("d", X)), C("retractall", C("d", X, Y)),
                            C("retract", A("flag")), C("retractall", C("e", X, X))])
            steps.append([{"op": "solve", "e": e, "r": newr(), "goal": g, "qnv": 2, "k": rnd.choice([0, 1])}])
        elif k < 0.70:
            r = newr()
            g = rnd.choice([C("p", X), C("d", X), C("r", X, Y), C("retract", C("d", X)), C("q", X)])
            steps.append([{"op": "query", "e": e, "r": r, "goal": g, "qnv": 2}])
            live.append(r)
        elif k < 0.88 and live:
            r = rnd.choice(live)
            steps.append([{"op": "next", "r": r}])
        elif k < 0.94 and live:
            r = live.pop(rnd.randrange(len(live)))
            steps.append([{"op": "close", "r": r, "how": rnd.choice(["close", "drop", "raise", "break"])}])
        elif k < 0.97:
            steps.append([{"op": "clear", "e": e}])
        else:
            steps.append([{"op": "register", "e": e, "name": "q", "arity": 1, "style": rnd.choice(["inferred", "explicit", "explicit-varargs"]), "fid": "n%d" % i,
                           "rows": [{"args": [A("py%d" % i)], "nv": 0}], "raise": {"call": 0, "row": 0}, "yields": rnd.random() < 0.5}])
    for r in live:
        steps.append([{"op": "next", "r": r}])
        steps.append([{"op": "close", "r": r, "how": "close"}])
    for e in range(1, engines + 1):
        steps.append([{"op": "solve", "e": e, "r": newr(), "goal": C("d", X), "qnv": 1, "k": 0}])
        steps.append([{"op": "solve", "e": e, "r": newr(), "goal": C("p", X), "qnv": 1, "k": 3}])
    keys = [{"n": "d", "k": 1}, {"n": "d", "k": 2}, {"n": "flag", "k": 0}, {"n": "p", "k": 1}, {"n": "e", "k": 2}]
    return {"engines": engines, "scripts": scripts, "steps": steps, "keys": keys}


def conj_(*gs):
    gs = list(gs)
    r = gs[-1]
    for g in reversed(gs[:-1]):
        r = and_(g, r)
    return r


# ---------------------------------------------------------------- programs above the "small case" sizes
def scale_scenarios():
    """sizes that small enumerated cases never reach: long lists, deep terms, many clauses, many facts,
    many answers, high arity, big integers, long names, many variables in one clause"""
    X, Y, Z = V(0), V(1), V(2)

    def s(n):
        t = A("z")
        for _ in range(n):
            t = C("s", t)
        return t
    app = [clause(C("app", NIL, V(0), V(0))),
           clause(C("app", lst([V(0)], V(1)), V(2), lst([V(0)], V(3))), call(C("app", V(1), V(2), V(3))))]
    mem = [clause(C("member", V(0), lst([V(0)], V(900)))), clause(C("member", V(0), lst([V(900)], V(1))), call(C("member", V(0), V(1))))]
    down = [clause(C("down", A("z"))), clause(C("down", C("s", V(0))), call(C("down", V(0))))]
    length = [clause(C("len", NIL, A("z"))), clause(C("len", lst([V(900)], V(0)), C("s", V(1))), call(C("len", V(0), V(1))))]
    many = [clause(C("many", I(i), A("v%d" % (i % 7)))) for i in range(120)]
    clauses40 = [clause(C("c40", I(i), X), call(C("=", X, C("r", I(i), I(i * i))))) for i in range(45)]
    wide = [clause(C("wide12", *[V(i) for i in range(12)]), conj_(*[call(C("=", V(i), I(i))) for i in range(0, 12, 2)])),
            clause(C("wide12", *[A("k%d" % i) for i in range(12)]))]
    bigs = [2 ** 31 - 1, 2 ** 31, 2 ** 32, 2 ** 63 - 1, 2 ** 63, 2 ** 64, 10 ** 30, 255, 256, 65535, 65536]
    ints = [clause(C("big", I(b))) for b in bigs] + [clause(C("bigeq", X), call(C("=", X, I(2 ** 64 + 1))))]
    longname = "a" + "x" * 400
    names = [clause(C("name", A(longname))), clause(C("name", A("q " * 200))), clause(C(longname, A("ok")))]
    manyvars = [clause(C("mv", V(0)), conj_(*([call(C("=", V(i), C("f", V(i + 1)))) for i in range(16)] + [call(C("=", V(16), A("end")))])))]
    script = {"app/3": app, "member/2": mem, "down/1": down, "len/2": length, "many/2": many, "c40/2": clauses40, "wide12/12": wide,
              "big/1": ints[:-1], "bigeq/1": ints[-1:], "name/1": names[:2], longname + "/1": names[2:], "mv/1": manyvars}
    L40 = lst([I(i) for i in range(40)])
    qs = [(C("app", V(0), V(1), lst([A("e%d" % i) for i in range(25)])), 2, 0), (C("app", lst([I(i) for i in range(30)]), lst([A("t")]), V(0)), 1, 0),
          (C("member", V(0), L40), 1, 0), (C("member", I(39), L40), 0, 0), (C("down", s(70)), 0, 0), (C("len", L40, V(0)), 1, 0),
          (C("len", V(0), s(20)), 1, 1), (C("many", V(0), V(1)), 2, 0), (C("many", V(0), A("v3")), 1, 0), (C("many", I(119), V(0)), 1, 0),
          (C("c40", V(0), V(1)), 2, 0), (C("c40", I(44), V(0)), 1, 0), (C("wide12", *[V(i) for i in range(12)]), 12, 0),
          (C("wide12", *([A("k0")] + [V(i) for i in range(11)])), 11, 0), (C("big", V(0)), 1, 0), (C("big", I(2 ** 63)), 0, 0), (C("big", I(2 ** 63 + 1)), 0, 0),
          (C("bigeq", V(0)), 1, 0), (C("=", V(0), I(10 ** 40)), 1, 0), (C("name", V(0)), 1, 0), (C(longname, V(0)), 1, 0), (C("mv", V(0)), 1, 0),
          (C("=", lst([V(i) for i in range(30)]), lst([I(i) for i in range(30)])), 30, 0),
          (C("=", C("w", *[V(i % 5) for i in range(25)]), C("w", *[I(i % 5) for i in range(25)])), 5, 0),
          (C("=", s(60), s(60)), 0, 0), (C("\\=", s(60), s(61)), 0, 0), (C("findall", V(0), C("many", V(0), V(1)), V(2)), 3, 0)]
    scns = []
    for g, qnv, k in qs:
        scns.append({"scripts": {"P": script}, "steps": [[{"op": "load", "e": 1, "script": "P", "ow": True}],
                                                      [{"op": "solve", "e": 1, "r": 1, "goal": g, "qnv": qnv, "k": k}]], "keys": []})
    # the dynamic database at scale: 150 facts, interleaved retracts
    steps = []
    for i in range(150):
        steps.append([{"op": "assert", "e": 1, "term": C("dd", I(i), A("t%d" % (i % 3))), "atEnd": i % 4 != 0, "r": 0}])
    steps.append([{"op": "solve", "e": 1, "r": 1, "goal": C("dd", V(0), A("t1")), "qnv": 1, "k": 0}])
    steps.append([{"op": "solve", "e": 1, "r": 2, "goal": C("retract", C("dd", V(0), A("t2"))), "qnv": 1, "k": 20}])
    steps.append([{"op": "solve", "e": 1, "r": 3, "goal": C("retractall", C("dd", V(0), A("t0"))), "qnv": 1, "k": 0}])
    steps.append([{"op": "solve", "e": 1, "r": 4, "goal": C("dd", V(0), V(1)), "qnv": 2, "k": 0}])
    scns.append({"scripts": {}, "steps": steps, "keys": [{"n": "dd", "k": 2}]})
    return scns


def scale_groups():
    """more scenarios above the sizes of the enumerated cases, by theme; each check adds the themes its
    property talks about.  Thresholds aimed at: arity > 256, > 32 / > 1024 facts under one key, > 200
    zero-argument goals in one compilation unit, variable chains > 64, lists > 100, call/N with N > 8,
    findall goals deeper than 200 Python frames, facts of > 256 nodes, scripts > 32 KiB."""
    G = {}

    def one(script, goal, qnv, k=0, keys=()):
        steps = ([[{"op": "load", "e": 1, "script": "P", "ow": True}]] if script else []) + [[{"op": "solve", "e": 1, "r": 1, "goal": goal, "qnv": qnv, "k": k}]]
        return {"scripts": {"P": script} if script else {}, "steps": steps, "keys": list(keys)}

    # --- arity above 256
    N = 300
    vs = [V(i) for i in range(N)]
    ints = [I(i) for i in range(N)]
    G["arity"] = [one(None, C("=", C("f", *vs), C("f", *ints)), N),
                  one(None, C("=", C("f", *ints), C("f", *(ints[:-1] + [I(0)]))), 0),
                  one(None, C("=", C("f", *vs[:257]), C("f", *ints[:257])), 257),
                  one(None, C("=", C("f", *ints[:257]), C("f", *ints[:258])), 0),
                  one(None, C("\\=", C("f", *ints[:260]), C("f", *ints[:260])), 0)]
    steps = [[{"op": "assert", "e": 1, "term": C("w300", *ints), "atEnd": True, "r": 0}],
             [{"op": "assert", "e": 1, "term": C("w300", *vs), "atEnd": True, "r": 0}],
             [{"op": "solve", "e": 1, "r": 1, "goal": C("w300", *([V(0)] * N)), "qnv": 1, "k": 0}],
             [{"op": "solve", "e": 1, "r": 2, "goal": C("w300", *vs), "qnv": N, "k": 0}]]
    G["arity"].append({"scripts": {}, "steps": steps, "keys": []})
    # --- many zero-argument goals and foo() terms in one compilation unit
    zs = {}
    for i in range(48):
        zs["st%d/0" % i] = [clause(A("st%d" % i), conj_(*[call(A("t%d" % (j % 3))) for j in range(7)]))]
    for j in range(3):
        zs["t%d/0" % j] = [clause(A("t%d" % j))]
    zs["pick/2"] = [clause(C("pick", V(0), V(1)), conj_(call(A("st47")), call(C("col", V(0))), call(C("col", V(1))), call(C("\\=", V(0), V(1)))))]
    zs["col/1"] = [clause(C("col", A("red"))), clause(C("col", A("green")))]
    G["zero"] = [one(zs, A("st0"), 0), one(zs, A("st47"), 0), one(zs, C("pick", V(0), V(1)), 2)]
    # --- long chains of variable-to-variable bindings, read at several answers
    link = {"link/3": [clause(C("link", NIL, V(0), V(0))), clause(C("link", lst([V(900)], V(0)), V(1), V(2)), conj_(call(C("=", V(1), V(3))), call(C("link", V(0), V(3), V(2)))))],
            "rlink/3": [clause(C("rlink", NIL, V(0), V(0))), clause(C("rlink", lst([V(900)], V(0)), V(1), V(2)), conj_(call(C("=", V(3), V(1))), call(C("rlink", V(0), V(3), V(2)))))],
            "val/1": [clause(C("val", A("a"))), clause(C("val", A("b"))), clause(C("val", C("f", V(0))))],
            "chain/2": [clause(C("chain", V(0), V(1)), conj_(call(C("link", lst([I(0)] * 80), V(0), V(2))), call(C("val", V(2))), call(C("=", V(1), C("got", V(0))))))],
            "rchain/2": [clause(C("rchain", V(0), V(1)), conj_(call(C("rlink", lst([I(0)] * 70), V(0), V(2))), call(C("val", V(2))), call(C("=", V(1), C("got", V(0))))))]}
    G["chain"] = [one(link, C("chain", V(0), V(1)), 2), one(link, C("rchain", V(0), V(1)), 2),
                  one(link, C(",", C("link", lst([I(1)] * 90), V(0), V(1)), C("val", V(1))), 2)]
    # --- call/N beyond 8, findall over deep goals
    w12 = {"w12/12": [clause(C("w12", *[V(i) for i in range(12)]), conj_(*[call(C("=", V(i), I(i))) for i in range(0, 12, 3)])),
                      clause(C("w12", *[A("k%d" % i) for i in range(12)]))],
           "viacall/2": [clause(C("viacall", V(0), V(1)), call(C("call", C("w12", A("k0"), V(0)), *([V(900 + i) for i in range(9)] + [V(1)]))))]}
    G["calln"] = [one(w12, C("call", A("w12"), *[V(i) for i in range(12)]), 12),
                  one(w12, C("call", C("w12", V(0), V(1), V(2)), *[V(3 + i) for i in range(9)]), 12),
                  one(w12, C("call", C("w12", A("k0")), *[V(i) for i in range(11)]), 11),
                  one(w12, C("call", C("w12", I(0), V(0)), *[V(1 + i) for i in range(10)]), 11),
                  one(w12, C("viacall", V(0), V(1)), 2),
                  one(w12, C("call", A("w12"), *[V(i) for i in range(11)]), 11)]
    mem = {"member/2": [clause(C("member", V(0), lst([V(0)], V(900)))), clause(C("member", V(0), lst([V(900)], V(1))), call(C("member", V(0), V(1))))],
           "down/1": [clause(C("down", A("z"))), clause(C("down", C("s", V(0))), call(C("down", V(0))))],
           "fa/1": [clause(C("fa", V(0)), call(C("findall", V(1), C("member", V(1), lst([I(i) for i in range(60)])), V(0))))],
           "fd/1": [clause(C("fd", V(0)), call(C("findall", A("y"), C("down", _s(60)), V(0))))]}
    L120 = lst([I(i) for i in range(110)])
    G["findall"] = [one(mem, C("findall", V(0), C("member", V(0), L120), V(1)), 2), one(mem, C("fa", V(0)), 1), one(mem, C("fd", V(0)), 1),
                    one(mem, C("findall", V(0), C(",", C("member", V(0), L120), C("member", V(0), lst([I(109), I(3)]))), V(1)), 2)]
    # --- one large fact matched by two simultaneously suspended queries
    bigf = C("bigf", lst([C("e", V(i % 7), I(i)) for i in range(100)]), V(0), C("t", V(1), V(2)))
    pat1 = C("bigf", V(0), A("one"), V(1))
    pat2 = C("bigf", V(0), A("two"), C("t", A("x"), V(1)))
    t1 = [{"op": "query", "e": 1, "r": 1, "goal": pat1, "qnv": 2, "t": 1}, {"op": "next", "r": 1, "t": 1}, {"op": "next", "r": 1, "t": 1}]
    pat3 = C("bigf", V(0), A("three"), V(1))
    t2 = [{"op": "query", "e": 1, "r": 2, "goal": pat2, "qnv": 2, "t": 2}, {"op": "next", "r": 2, "t": 2}, {"op": "close", "r": 2, "how": "close", "t": 2},
          {"op": "query", "e": 1, "r": 3, "goal": pat3, "qnv": 2, "t": 2}, {"op": "next", "r": 3, "t": 2}, {"op": "next", "r": 3, "t": 2}]
    G["bigfact"] = [{"engines": 1, "scripts": {}, "keys": [], "threads": [t1, t2],
                     "steps": [[{"op": "assert", "e": 1, "term": bigf, "atEnd": True, "r": 0, "t": 3}],
                               [{"op": "assert", "e": 1, "term": C("bigf", lst([I(i) for i in range(105)]), V(0), V(0)), "atEnd": True, "r": 0, "t": 3}]]}]
    # --- a script above 32 KiB in two engines
    big = {}
    for i in range(420):
        big["bp%d/2" % i] = [clause(C("bp%d" % i, A("value_number_%d" % i), V(0)), call(C("=", V(0), C("result", I(i), A("of_a_long_script")))))]
    big["cnt/1"] = [clause(C("cnt", V(0)), call(C("d", V(0))))]
    big["upd/1"] = [clause(C("upd", V(0)), conj_(call(C("bp7", V(900), V(901))), call(C("assertz", C("d", V(0))))))]
    ta = [{"op": "load", "e": 1, "script": "P", "ow": True, "t": 1}, {"op": "solve", "e": 1, "r": 1, "goal": C("upd", A("one")), "qnv": 0, "k": 0, "t": 1},
          {"op": "solve", "e": 1, "r": 2, "goal": C("cnt", V(0)), "qnv": 1, "k": 0, "t": 1}]
    tb = [{"op": "load", "e": 2, "script": "P", "ow": True, "t": 2}, {"op": "solve", "e": 2, "r": 11, "goal": C("upd", A("two")), "qnv": 0, "k": 0, "t": 2},
          {"op": "solve", "e": 2, "r": 12, "goal": C("cnt", V(0)), "qnv": 1, "k": 0, "t": 2}, {"op": "solve", "e": 2, "r": 13, "goal": C("bp419", V(0), V(1)), "qnv": 2, "k": 0, "t": 2}]
    G["bigscript"] = [{"engines": 2, "scripts": {"P": big}, "keys": [{"n": "d", "k": 1}], "steps": [], "threads": [ta, tb]}]
    # --- more than 32 facts under one key, a suspended retract / enumeration and removals from outside
    def manyfacts(n, stop_at, pre=None):
        steps = [[{"op": "assertn", "e": 1, "name": "mf", "lo": 0, "n": n, "atEnd": True}]]
        steps.append([{"op": "query", "e": 1, "r": 1, "goal": C("retract", C("mf", V(0))), "qnv": 1}, {"op": "query", "e": 1, "r": 1, "goal": C("mf", V(0)), "qnv": 1}])
        steps += [[{"op": "next", "r": 1}]] * stop_at
        steps.append([{"op": "solve", "e": 1, "r": 2, "goal": C("retract", C("mf", I(stop_at + 3))), "qnv": 0, "k": 0},
                      {"op": "solve", "e": 1, "r": 2, "goal": C("retractall", C("mf", V(0))), "qnv": 1, "k": 0},
                      {"op": "assert", "e": 1, "term": C("mf", A("first")), "atEnd": False, "r": 0},
                      {"op": "clear", "e": 1}])
        steps += [[{"op": "next", "r": 1}]] * 6
        steps.append([{"op": "close", "r": 1, "how": "close"}])
        steps.append([{"op": "solve", "e": 1, "r": 3, "goal": C("mf", V(0)), "qnv": 1, "k": 0}])
        return {"scripts": {}, "steps": steps, "keys": []}
    G["manyfacts"] = [manyfacts(40, 2), manyfacts(70, 34), manyfacts(36, 33)]
    def manyfacts_rest(n, stop_at, goal, upd):
        steps = [[{"op": "assertn", "e": 1, "name": "mf", "lo": 0, "n": n, "atEnd": True}]]
        steps.append([{"op": "query", "e": 1, "r": 1, "goal": goal, "qnv": 1}])
        steps += [[{"op": "next", "r": 1}]] * stop_at
        steps.append([upd])
        steps.append([{"op": "rest", "r": 1, "k": 0}])
        return {"scripts": {}, "steps": steps, "keys": []}
    G["manyfacts-big"] = [manyfacts_rest(1100, 2, C("mf", V(0)), {"op": "assert", "e": 1, "term": C("mf", A("first")), "atEnd": False, "r": 0}),
                          manyfacts_rest(1100, 3, C("retract", C("mf", V(0))), {"op": "solve", "e": 1, "r": 2, "goal": C("retract", C("mf", I(1095))), "qnv": 0, "k": 0})]
    G["manyfacts-rest"] = [manyfacts_rest(45, 2, C("mf", V(0)), {"op": "assert", "e": 1, "term": C("mf", A("first")), "atEnd": False, "r": 0}),
                           manyfacts_rest(45, 3, C("retract", C("mf", V(0))), {"op": "solve", "e": 1, "r": 2, "goal": C("retract", C("mf", I(40))), "qnv": 0, "k": 0})]
    # --- a predicate of several hundred clauses with cuts
    col = {"color/2": [clause(C("color", A("k%d" % i), A("first")), CUT) for i in range(300)] + [clause(C("color", V(900), A("default")))],
           "pick/3": [clause(C("pick", V(0), V(1), V(2)), conj_(call(C("color", V(0), V(1))), call(C("color", V(0), V(2)))))],
           "late/2": [clause(C("late", I(i), A("n"))) for i in range(280)] + [clause(C("late", V(0), A("cut")), CUT), clause(C("late", V(900), A("never")))]}
    G["manyclauses-cut"] = [one(col, C("pick", A("k0"), V(0), V(1)), 2), one(col, C("pick", A("k299"), V(0), V(1)), 2), one(col, C("color", A("k120"), V(0)), 1),
                            one(col, C("color", A("zz"), V(0)), 1), one(col, C("color", V(0), V(1)), 2), one(col, C("late", I(5), V(0)), 1), one(col, C("late", I(279), V(0)), 1)]
    # --- several hundred goals abandoned by cuts / closed early on one engine, then the bounded route
    cutp = {"item/1": [clause(C("item", I(i))) for i in (1, 2, 3)],
            "first/1": [clause(C("first", V(0)), conj_(call(C("item", V(0))), CUT))],
            "pair/2": [clause(C("pair", V(0), V(1)), conj_(call(C("first", V(0))), call(C("item", V(1))), call(C("\\=", V(0), V(1)))))],
            "ite/1": [clause(C("ite", V(0)), or_(then(call(C("item", V(0))), TRUE), FAIL))],
            "rep/1": [clause(C("rep", NIL)), clause(C("rep", lst([V(900)], V(0))), conj_(call(C("first", V(1))), call(C("once", C("item", V(2)))), call(C("ite", V(3))), call(C("rep", V(0)))))]}
    steps = [[{"op": "load", "e": 1, "script": "P", "ow": True}]]
    for i in range(12):
        steps.append([{"op": "solve", "e": 1, "r": i + 1, "goal": C("rep", lst([I(0)] * 25)), "qnv": 0, "k": 0}])
    for i in range(30):
        steps.append([{"op": "solve", "e": 1, "r": 100 + i, "goal": C("item", V(0)), "qnv": 1, "k": 1}])
    steps.append([{"op": "solve", "e": 1, "r": 200, "goal": C("first", V(0)), "qnv": 1, "k": 0, "via": {"exc": "Exception"}}])
    steps.append([{"op": "solve", "e": 1, "r": 201, "goal": C("pair", V(0), V(1)), "qnv": 2, "k": 0, "via": {"exc": "Exception"}}])
    steps.append([{"op": "solve", "e": 1, "r": 202, "goal": C("item", V(0)), "qnv": 1, "k": 2, "via": {"exc": "KeyboardInterrupt"}}])
    steps.append([{"op": "solve", "e": 1, "r": 203, "goal": C("pair", V(0), V(1)), "qnv": 2, "k": 0}])
    G["cuts-then-bounded"] = [{"scripts": {"P": cutp}, "steps": steps, "keys": []}]
    return G


def _s(n):
    t = A("z")
    for _ in range(n):
        t = C("s", t)
    return t


def _map_term(t, f):
    if t["t"] == "v":
        return f(t)
    if t["t"] == "c":
        return {"t": "c", "n": t["n"], "a": [_map_term(a, f) for a in t["a"]]}
    return t


def _map_body(b, f):
    k = b["b"]
    if k == "call":
        return {"b": "call", "g": _map_term(b["g"], f)}
    if k in ("and", "or"):
        return {"b": k, "l": _map_body(b["l"], f), "r": _map_body(b["r"], f)}
    if k == "then":
        return {"b": k, "c": _map_body(b["c"], f), "t": _map_body(b["t"], f)}
    if k == "not":
        return {"b": k, "g": _map_body(b["g"], f)}
    return b


def _count_vars(t, acc):
    if t["t"] == "v":
        acc[t["id"]] = acc.get(t["id"], 0) + 1
    elif t["t"] == "c":
        for a in t["a"]:
            _count_vars(a, acc)


def _count_body(b, acc):
    k = b["b"]
    if k == "call":
        _count_vars(b["g"], acc)
    elif k in ("and", "or"):
        _count_body(b["l"], acc); _count_body(b["r"], acc)
    elif k == "then":
        _count_body(b["c"], acc); _count_body(b["t"], acc)
    elif k == "not":
        _count_body(b["g"], acc)


def anonymise(scn, rnd, p=0.8):
    """variables that occur once in their clause become anonymous (`_`): same program for the specification
    (an id of its own), another spelling for the compiler"""
    out = dict(scn)
    out["scripts"] = {}
    for name, script in scn.get("scripts", {}).items():
        ns = {}
        for key, cls in script.items():
            ncl = []
            for c in cls:
                cnt = {}
                _count_vars(c["h"], cnt); _count_body(c["body"], cnt)
                ren = {}
                base = max([v for v in cnt if v >= ANON] + [ANON - 1]) + 1
                for v, n in cnt.items():
                    if n == 1 and v < ANON and rnd.random() < p:
                        ren[v] = base + len(ren)
                f = lambda t: V(ren.get(t["id"], t["id"]))
                ncl.append(clause(_map_term(c["h"], f), _map_body(c["body"], f)))
            ns[key] = ncl
        out["scripts"][name] = ns
    return out


def reentered_scenarios(rnd=None, limit=None):
    """a construct inside the condition of another construct (or inside a negation), entered once per
    answer of a preceding generator goal, with outcomes that differ between the entries: every
    combination of a small inner construct over tests on the generator's variable and an outer construct"""
    X, Y, R = V(0), V(1), V(2)
    tests = {"t1": [1], "t2": [2], "t12": [1, 2], "t23": [2, 3], "t3": [3]}
    base = {"g/1": [clause(C("g", I(i))) for i in (1, 2, 3)]}
    for n, vals in tests.items():
        base[n + "/1"] = [clause(C(n, I(i))) for i in vals]
    leaves = [call(C(n, X)) for n in sorted(tests)] + [TRUE, FAIL]
    inners = [not_(l) for l in leaves[:5]]
    inners += [or_(then(a, b), c) for a in leaves[:5] for b in leaves for c in leaves if not (b == c)]
    inners += [then(a, b) for a in leaves[:5] for b in leaves[:5] + [TRUE]]
    inners += [or_(a, b) for a in leaves[:3] for b in leaves[2:5]]
    m = lambda s: call(C("=", R, C(s, X)))
    scns = []
    for inner in inners:
        gen_inner = and_(call(C("g", X)), inner)
        outers = [not_(gen_inner),
                  or_(then(gen_inner, m("then")), m("else")),
                  then(gen_inner, m("then")),
                  and_(gen_inner, m("plain")),
                  or_(then(not_(gen_inner), m("nthen")), and_(call(C("g", X)), m("nelse"))),
                  and_(call(C("g", Y)), or_(then(and_(call(C("g", X)), and_(call(C("t12", Y)), inner)), m("then")), m("else")))]
        for body in outers:
            script = dict(base)
            script["t/3"] = [{"h": C("t", X, Y, R), "body": body, "nv": 3}]
            scns.append({"scripts": {"P": script}, "keys": [],
                         "steps": [[{"op": "load", "e": 1, "script": "P", "ow": True}],
                                   [{"op": "solve", "e": 1, "r": 1, "goal": C("t", V(0), V(1), V(2)), "qnv": 3, "k": 0}]]})
    if rnd is not None and limit and len(scns) > limit:
        rnd.shuffle(scns)
        scns = scns[:limit]
    return scns


def many_construct_scenarios():
    """predicates with many control constructs (twenty and more labels in one compiled function, not starting
    at the first label of the program): an outer construct whose condition holds a long run of inner
    constructs followed by a generator, after leading clauses that use constructs of their own"""
    X, R = V(0), V(1)
    base = {"none/0": [clause(A("none"), FAIL)], "one/0": [clause(A("one"))], "two/1": [clause(C("two", A("a"))), clause(C("two", A("b")))]}
    scns = []
    for npre in (0, 1, 3):
        for nlead in (0, 1, 2):
            for n in (8, 10, 11, 12):
                for ik in ("neg", "ite"):
                    inner = (lambda: not_(call(A("none")))) if ik == "neg" else (lambda: or_(then(call(A("none")), FAIL), TRUE))
                    cond = conj_(*([inner() for _ in range(n)] + [call(C("two", X))]))
                    outers = [or_(then(cond, call(C("=", R, C("then", X)))), call(C("=", R, A("else")))),
                              and_(not_(cond), call(C("=", R, A("negated")))),
                              then(cond, call(C("=", R, C("then", X))))]
                    for oi, outer in enumerate(outers):
                        script = dict(base)
                        for i in range(npre):
                            script["setup%d/0" % i] = [clause(A("setup%d" % i), or_(then(call(A("none")), call(A("one"))), call(A("one"))))]
                        lead = [{"h": C("check", R), "body": conj_(*([not_(call(A("one")))] + [not_(call(A("none"))) for _ in range(7)] + [call(C("=", R, A("lead%d" % j)))])), "nv": 2}
                                for j in range(nlead)]
                        script["check/1"] = lead + [{"h": C("check", R), "body": outer, "nv": 2}, clause(C("check", A("last")))]
                        scns.append({"scripts": {"P": script}, "keys": [],
                                     "steps": [[{"op": "load", "e": 1, "script": "P", "ow": True}],
                                               [{"op": "solve", "e": 1, "r": 1, "goal": C("check", V(0)), "qnv": 1, "k": 0}]]})
    return scns


def twin_scenarios():
    """ground terms that differ but PRINT alike when quotes are dropped - a quoted atom whose text spells the
    arguments (or the whole) of a compound term, a list, or a variable's generated name - in one clause, one
    predicate, one program, in both orders"""
    X, Y, R = V(0), V(1), V(2)
    a, b = A("a"), A("b")
    pairs = [(C("pair", A("a,b")), C("pair", a, b)), (A("point(1,2)"), C("point", I(1), I(2))), (lst([A("x,y")]), lst([A("x"), A("y")])),
             (C("g", A("f(a)")), C("g", C("f", a))), (C("t", A("a,b"), a), C("t", a, A("b,a"))), (A("[a,b]"), lst([a, b])), (C("k", A("X0_")), C("k", A("X0"))),
             (C("w", A("a"), lst([A("b,c")])), C("w", A("a"), lst([A("b"), A("c")])))]
    scns = []
    for i, (t1, t2) in enumerate(pairs):
        for first, second in ((t1, t2), (t2, t1)):
            script = {"edge/1": [clause(C("edge", first))], "label/1": [clause(C("label", second))],
                      "same/1": [clause(C("same", X), and_(call(C("edge", X)), call(C("label", X))))],
                      "either/1": [clause(C("either", X), or_(call(C("=", X, first)), call(C("=", X, second))))],
                      "both/2": [clause(C("both", X, Y), conj_(call(C("=", X, first)), call(C("=", Y, second)), call(C("\\=", X, Y))))],
                      "p/2": [clause(C("p", first, A("one"))), clause(C("p", second, A("two")))],
                      "pk/1": [clause(C("pk", R), or_(call(C("p", first, R)), call(C("p", second, R))))],
                      "ite/1": [clause(C("ite", R), or_(then(call(C("label", first)), call(C("=", R, A("wrong")))), then(call(C("label", second)), call(C("=", R, A("right"))))))],
                      "lists/1": [clause(C("lists", X), call(C("=", X, lst([first, second, first]))))]}
            steps = [[{"op": "load", "e": 1, "script": "P", "ow": True}]]
            for j, (g, qnv) in enumerate([(C("same", V(0)), 1), (C("either", V(0)), 1), (C("both", V(0), V(1)), 2), (C("p", V(0), V(1)), 2), (C("pk", V(0)), 1),
                                          (C("ite", V(0)), 1), (C("lists", V(0)), 1), (C("label", first), 0), (C("edge", second), 0)]):
                steps.append([{"op": "solve", "e": 1, "r": j + 1, "goal": g, "qnv": qnv, "k": 0}])
            scns.append({"scripts": {"P": script}, "steps": steps, "keys": [], "py": True})
    return scns


SPECIAL_NAMES = ["__aux", "__init__", "_p", "not", "nat_1", "nat_n", "call_1", "p_0", "x1", "doBreak", "l1", "arg1"]


def special_name_scenarios():
    """predicates whose names look like something else: two leading underscores, the key a native or a compiled
    predicate gets in the engine (`nat_1` next to a native nat/1), words of other Prologs that are ordinary names
    here (`not`), names the generated code uses for its own variables"""
    X, Y = V(0), V(1)
    rows = [{"args": [A("native")], "nv": 0}]
    scns = []
    for n in SPECIAL_NAMES:
        script = {n + "/1": [clause(C(n, A("first"))), clause(C(n, A("second")))],
                  "use/1": [clause(C("use", X), call(C(n, X)))],
                  "cond/1": [clause(C("cond", X), or_(then(call(C(n, A("second"))), call(C("=", X, A("then")))), call(C("=", X, A("else")))))],
                  "neg/1": [clause(C("neg", X), and_(not_(call(C(n, A("third")))), call(C("=", X, A("absent")))))],
                  "via/1": [clause(C("via", X), conj_(call(C("=", Y, C(n, X))), call(C("call", Y))))]}
        more = {n + "/1": [clause(C(n, A("third")))], n + "/2": [clause(C(n, A("two"), A("args")))]}
        steps = [[{"op": "register", "e": 1, "name": "nat", "arity": 1, "style": "inferred", "fid": "nat", "rows": rows, "raise": {"call": 0, "row": 0}, "yields": False}],
                 [{"op": "load", "e": 1, "script": "P", "ow": True}]]
        r = 0
        for g, qnv in [(C(n, V(0)), 1), (C("use", V(0)), 1), (C("cond", V(0)), 1), (C("neg", V(0)), 1), (C("via", V(0)), 1), (C("nat", V(0)), 1)]:
            r += 1
            steps.append([{"op": "solve", "e": 1, "r": r, "goal": g, "qnv": qnv, "k": 0}])
        steps.append([{"op": "load", "e": 1, "script": "M", "ow": False}, {"op": "load", "e": 1, "script": "M", "ow": True}])
        for g, qnv in [(C(n, V(0)), 1), (C(n, V(0), V(1)), 2), (C("use", V(0)), 1), (C("neg", V(0)), 1), (C("nat", V(0)), 1)]:
            r += 1
            steps.append([{"op": "solve", "e": 1, "r": r, "goal": g, "qnv": qnv, "k": 0}])
        scns.append({"scripts": {"P": script, "M": more}, "steps": steps, "keys": []})
    return scns
