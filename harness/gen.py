"""Seeded generators of programs and scenarios (the parts of the input space that are not
enumerated by TLC itself).  Variables carry sorts so that random programs rarely need
cyclic terms or call non-callable goals (the properties leave those open)."""
import random

from .terms import A, I, V, C, NIL, lst, clause, call, and_, or_, then, not_, TRUE, FAIL, CUT, term_vars, body_vars

ANON = 900   # variable ids >= ANON are rendered as `_` (each must occur once per clause)


class Cl:
    """clause under construction: allocates variables with sorts"""

    def __init__(self, rnd):
        self.rnd = rnd
        self.vars = []     # list of sorts
        self.anon = 0
        self.ops = False
        self.rich = False

    def var(self, sort, fresh_p=0.3):
        cands = [i for i, so in enumerate(self.vars) if so == sort]
        if cands and self.rnd.random() > fresh_p:
            return V(self.rnd.choice(cands))
        self.vars.append(sort)
        return V(len(self.vars) - 1)

    def anonvar(self):
        self.anon += 1
        return V(ANON + self.anon - 1)

    def t0(self):
        r = self.rnd.random()
        if self.rich and r < 0.08:
            # unusual shapes: atoms that need quotes, the empty-list atom, big integers, a compound without arguments
            return self.rnd.choice([A("two words"), A("it's"), A("\u00e9t\u00e9"), A("[]"), A("A"), A("_x"), I(0), I(10 ** 15), {"t": "c", "n": "e", "a": []}, A("e")])
        if r < 0.45:
            return A(self.rnd.choice("abc"))
        if r < 0.55:
            return I(self.rnd.choice([1, 2]))
        if r < 0.60:
            return self.anonvar()
        return self.var(0)

    def t1(self):
        r = self.rnd.random()
        if self.ops and r < 0.06:
            # operator terms: ordinary compound terms written with the grammar's BINOP/UNOP syntax
            if self.rnd.random() < 0.7:
                return C(self.rnd.choice(["<", ">", "==", "=<", ">=", "\\=="]), self.t0(), self.t0())
            return C(self.rnd.choice("+-"), self.t0())
        if r < 0.35:
            return self.t0()
        if r < 0.5:
            return C("f", self.t0())
        if r < 0.6:
            return C("g", self.t0(), self.t0())
        if r < 0.7:
            return lst([self.t0() for _ in range(self.rnd.randint(0, 2))])
        if r < 0.75:
            return lst([self.t0()], self.var(1))
        return self.var(1)


SIG = {"p": (1,), "q": (0, 1), "r": (), "s": (0,), "d": (1,), "e": (0, 0)}
USER = ["p", "q", "r", "s"]
DYN = ["d", "e"]
DYNKEYS = [{"n": "d", "k": 1}, {"n": "e", "k": 2}]


def atomcall(c, name):
    sig = SIG[name]
    args = [c.t1() if so == 1 else c.t0() for so in sig]
    return A(name) if not args else C(name, *args)


def goal(c, depth, cutok, frag):
    """frag: set of allowed features among
       'ctl' (;, ->, \\+), 'cut', 'db' (assert/retract), 'meta' (call/once/findall), 'dyn' (calls to dynamic preds)"""
    rnd = c.rnd
    r = rnd.random()
    if depth <= 0 or r < 0.4:
        for _ in range(20):
            k = rnd.random()
            if k < 0.35:
                return call(atomcall(c, rnd.choice(USER)))
            if k < 0.45:
                if "dyn" in frag:
                    return call(atomcall(c, rnd.choice(DYN)))
                continue
            if k < 0.55:
                return call(C("=", c.t1(), c.t1()))
            if k < 0.60:
                return call(C("\\=", c.t1(), c.t1()))
            if k < 0.62 and c.ops:
                # a comparison operator as a goal: an ordinary call of a predicate nobody defines
                return call(C(rnd.choice(["<", ">", "==", ">="]), c.t0(), c.t0()))
            if k < 0.64:
                return TRUE
            if k < 0.68:
                return FAIL
            if k < 0.73:
                if cutok and "cut" in frag:
                    return CUT
                continue
            if k < 0.88:
                if "db" not in frag:
                    continue
                if k < 0.80:
                    return call(C(rnd.choice(["assertz", "asserta"]), atomcall(c, rnd.choice(DYN))))
                if k < 0.85:
                    return call(C("retract", atomcall(c, rnd.choice(DYN))))
                return call(C("retractall", atomcall(c, rnd.choice(DYN))))
            if "meta" not in frag:
                continue
            pool = USER + (DYN if "dyn" in frag else [])
            if k < 0.92:
                return call(C("once", atomcall(c, rnd.choice(pool))))
            if k < 0.96:
                g = atomcall(c, rnd.choice(pool))
                args = g.get("a", [])
                n = rnd.randint(0, len(args))
                head = A(g["n"]) if n == 0 else C(g["n"], *args[:n])
                return call(C("call", head, *args[n:]))
            c.vars.append(2)
            L = V(len(c.vars) - 1)
            return call(C("findall", c.t1(), atomcall(c, rnd.choice(pool)), L))
        return TRUE
    if "ctl" not in frag or r < 0.6:
        return and_(goal(c, depth - 1, cutok, frag), goal(c, depth - 1, cutok, frag))
    if r < 0.72:
        return or_(goal(c, depth - 1, cutok, frag), goal(c, depth - 1, cutok, frag))
    if r < 0.84:
        return or_(then(goal(c, depth - 1, False, frag), goal(c, depth - 1, cutok, frag)), goal(c, depth - 1, cutok, frag))
    if r < 0.9:
        return then(goal(c, depth - 1, False, frag), goal(c, depth - 1, cutok, frag))
    return not_(goal(c, depth - 1, False, frag))


def fix_plain_or(b):
    """a generated plain disjunction whose left operand happens to be a bare if-then would be read as
    if-then-else (by the language, and by the spec); that is fine - both sides agree - nothing to fix"""
    return b


def mk_clause(rnd, name, fact, frag, depth=3):
    c = Cl(rnd)
    c.ops = "ops" in frag
    c.rich = "rich" in frag
    h = atomcall(c, name)
    body = TRUE if fact else goal(c, rnd.randint(1, depth), True, frag)
    cl = {"h": h, "body": body, "nv": 0}
    vs = term_vars(h)
    body_vars(body, vs)
    cl["nv"] = (max(vs) + 1) if vs else 0
    return cl


def program(rnd, frag, nclauses=3, depth=3):
    defs = {}
    for name in USER:
        n = rnd.randint(0, nclauses)
        cls = [mk_clause(rnd, name, rnd.random() < 0.6, frag, depth) for _ in range(n)]
        if cls:
            defs["%s/%d" % (name, len(SIG[name]))] = cls
    c = Cl(rnd)
    c.ops = "ops" in frag
    c.rich = "rich" in frag
    c.vars = [1, 1]
    body = goal(c, depth, True, frag)
    cl = {"h": C("top", V(0), V(1)), "body": body}
    vs = [0, 1]
    body_vars(body, vs)
    cl["nv"] = max(vs) + 1
    defs["top/2"] = [cl]
    if rnd.random() < 0.4:
        c2 = Cl(rnd)
        c2.vars = [1, 1]
        b2 = goal(c2, max(depth - 1, 1), True, frag)
        vs = [0, 1]
        body_vars(b2, vs)
        defs["top/2"].append({"h": C("top", V(0), V(1)), "body": b2, "nv": max(vs) + 1})
    return defs


def random_scenario(rnd, frag, nclauses=3, depth=3, k=0):
    defs = program(rnd, frag, nclauses, depth)
    q = rnd.random()
    if q < 0.6:
        goal_t, qnv = C("top", V(0), V(1)), 2
    elif q < 0.8:
        goal_t, qnv = C("top", A(rnd.choice("abc")), V(0)), 1
    else:
        goal_t, qnv = C("top", V(0), lst([V(1)], V(2))), 3
    steps = [[{"op": "load", "e": 1, "script": "P", "ow": True}],
             [{"op": "solve", "e": 1, "r": 1, "goal": goal_t, "qnv": qnv, "k": k}]]
    return {"scripts": {"P": defs}, "steps": steps, "keys": DYNKEYS}


# ---------------------------------------------------------------- data-dependent control bodies
def dd_scenario(rnd, maxdepth=4):
    """a clause body over generators g(V) and tests tS(V) on SHARED variables, so that the outcome of a
    condition differs between the entries of a construct (nested if-then-else / negation inside
    conditions, re-entered by a preceding generator goal)"""
    X, Y, R = V(0), V(1), V(2)
    tests = {"t1": [1], "t12": [1, 2], "t23": [2, 3], "t3": [3], "t13": [1, 3]}
    marks = [0]

    def mark():
        marks[0] += 1
        return call(C("=", R, A("m%d" % marks[0])))

    def leaf(cond):
        r = rnd.random()
        v = X if rnd.random() < 0.6 else Y
        if r < 0.30:
            return call(C("g", v))
        if r < 0.65:
            return call(C(rnd.choice(sorted(tests)), v))
        if r < 0.72:
            return call(C("=", v, I(rnd.randint(1, 3))))
        if r < 0.80 and not cond:
            return mark()
        if r < 0.86:
            return TRUE
        if r < 0.92:
            return FAIL
        if not cond and r < 0.96:
            return CUT
        return call(C("none", v))

    def tree(d, cond):
        r = rnd.random()
        if d <= 0 or r < 0.22:
            return leaf(cond)
        if r < 0.50:
            return and_(tree(d - 1, cond), tree(d - 1, cond))
        if r < 0.62:
            return or_(tree(d - 1, cond), tree(d - 1, cond))
        if r < 0.84:
            return or_(then(tree(d - 1, True), tree(d - 1, cond)), tree(d - 1, cond))
        if r < 0.90:
            return then(tree(d - 1, True), tree(d - 1, cond))
        return not_(tree(d - 1, True))

    body = and_(call(C("g", X)), tree(rnd.randint(2, maxdepth), False)) if rnd.random() < 0.5 else tree(rnd.randint(2, maxdepth), False)
    script = {"g/1": [clause(C("g", I(i))) for i in (1, 2, 3)],
              "t/3": [{"h": C("t", X, Y, R), "body": body, "nv": 3}, clause(C("t", A("z"), A("z"), A("z")))]}
    for n, vals in tests.items():
        script[n + "/1"] = [clause(C(n, I(i))) for i in vals]
    steps = [[{"op": "load", "e": 1, "script": "P", "ow": True}],
             [{"op": "solve", "e": 1, "r": 1, "goal": C("t", V(0), V(1), V(2)), "qnv": 3, "k": 0}]]
    return {"scripts": {"P": script}, "steps": steps, "keys": []}


# ---------------------------------------------------------------- random API sessions
def api_session(rnd, engines=1, length=10):
    """a random sequence of API operations (loads, registrations, asserts through both routes, queries
    advanced step by step, abandoned, interleaved with updates, clears) over unusual term shapes; the
    machine spec/YP.tla decides every step"""
    X, Y = V(0), V(1)
    atoms = ["a", "b", "it's", "two words", "é", "[]", "A", "_u", "x1", "true"]

    def term(d=2, nv=2):
        r = rnd.random()
        if d <= 0 or r < 0.35:
            k = rnd.random()
            if k < 0.5:
                return A(rnd.choice(atoms))
            if k < 0.65:
                return I(rnd.choice([0, 1, 42, 10 ** 12]))
            return V(rnd.randrange(nv))
        if r < 0.6:
            return C(rnd.choice(["f", "g", "two words"]), *[term(d - 1, nv) for _ in range(rnd.randint(1, 3))])
        if r < 0.85:
            return lst([term(d - 1, nv) for _ in range(rnd.randint(0, 3))])
        return lst([term(d - 1, nv)], V(rnd.randrange(nv)))

    scripts = {
        "S1": {"p/1": [clause(C("p", A("s1"))), clause(C("p", X), call(C("d", X)))],
               "r/2": [clause(C("r", X, Y), conj_(call(C("p", X)), call(C("p", Y)), call(C("\\=", X, Y))))]},
        "S2": {"p/1": [clause(C("p", C("f", X)), and_(call(C("q", X)), CUT)), clause(C("p", A("s2")))],
               "q/1": [clause(C("q", I(1))), clause(C("q", I(2)))]},
        "S3": {"r/2": [clause(C("r", X, X))], "z/0": [clause(A("z"), call(C("assertz", C("d", A("fromz")))))],
               "q/1": [clause(C("q", X), or_(then(call(C("d", X)), TRUE), call(C("=", X, A("none")))))]},
    }
    steps = []
    live = []
    rid = [0]

    def newr():
        rid[0] += 1
        return rid[0]
    for i in range(length):
        e = rnd.randint(1, engines)
        k = rnd.random()
        if k < 0.12:
            steps.append([{"op": "load", "e": e, "script": rnd.choice(sorted(scripts)), "ow": rnd.random() < 0.6}])
        elif k < 0.27:
            t = rnd.choice([C("d", term(2)), C("d", term(1), term(1)), A("flag"), C("p", term(1)), C("e", V(0), V(0))])
            if rnd.random() < 0.5:
                steps.append([{"op": "assert", "e": e, "term": t, "atEnd": rnd.random() < 0.7, "r": 0}])
            else:
                steps.append([{"op": "solve", "e": e, "r": newr(), "goal": C(rnd.choice(["assertz", "asserta"]), t), "qnv": 2, "k": 0}])
        elif k < 0.45:
            g = rnd.choice([C("p", X), C("r", X, Y), C("d", X), C("d", X, Y), C("q", X), A("z"), A("flag"), C("e", A("a"), X),
                            C("findall", X, C("d", X), Y), C("call", A("p"), X), C("once", C("d", X)), C("d", term(1)), C("p", term(1))])
            steps.append([{"op": "solve", "e": e, "r": newr(), "goal": g, "qnv": 2, "k": rnd.choice([0, 0, 1, 2])}])
        elif k < 0.58:
            g = rnd.choice([C("retract", C("d", X)), C("retract", C("d", term(1))), C("retractall", C("d", X)), C("retractall", C("d", X, Y)),
                            C("retract", A("flag")), C("retractall", C("e", X, X))])
            steps.append([{"op": "solve", "e": e, "r": newr(), "goal": g, "qnv": 2, "k": rnd.choice([0, 1])}])
        elif k < 0.70:
            r = newr()
            g = rnd.choice([C("p", X), C("d", X), C("r", X, Y), C("retract", C("d", X)), C("q", X)])
            steps.append([{"op": "query", "e": e, "r": r, "goal": g, "qnv": 2}])
            live.append(r)
        elif k < 0.88 and live:
            r = rnd.choice(live)
            steps.append([{"op": "next", "r": r}])
        elif k < 0.94 and live:
            r = live.pop(rnd.randrange(len(live)))
            steps.append([{"op": "close", "r": r, "how": rnd.choice(["close", "drop", "raise", "break"])}])
        elif k < 0.97:
            steps.append([{"op": "clear", "e": e}])
        else:
            steps.append([{"op": "register", "e": e, "name": "q", "arity": 1, "style": rnd.choice(["inferred", "explicit", "explicit-varargs"]), "fid": "n%d" % i,
                           "rows": [{"args": [A("py%d" % i)], "nv": 0}], "raise": {"call": 0, "row": 0}, "yields": rnd.random() < 0.5}])
    for r in live:
        steps.append([{"op": "next", "r": r}])
        steps.append([{"op": "close", "r": r, "how": "close"}])
    for e in range(1, engines + 1):
        steps.append([{"op": "solve", "e": e, "r": newr(), "goal": C("d", X), "qnv": 1, "k": 0}])
        steps.append([{"op": "solve", "e": e, "r": newr(), "goal": C("p", X), "qnv": 1, "k": 3}])
    keys = [{"n": "d", "k": 1}, {"n": "d", "k": 2}, {"n": "flag", "k": 0}, {"n": "p", "k": 1}, {"n": "e", "k": 2}]
    return {"engines": engines, "scripts": scripts, "steps": steps, "keys": keys}


def conj_(*gs):
    gs = list(gs)
    r = gs[-1]
    for g in reversed(gs[:-1]):
        r = and_(g, r)
    return r


# ---------------------------------------------------------------- programs above the "small case" sizes
def scale_scenarios():
    """sizes that small enumerated cases never reach: long lists, deep terms, many clauses, many facts,
    many answers, high arity, big integers, long names, many variables in one clause"""
    X, Y, Z = V(0), V(1), V(2)

    def s(n):
        t = A("z")
        for _ in range(n):
            t = C("s", t)
        return t
    app = [clause(C("app", NIL, V(0), V(0))),
           clause(C("app", lst([V(0)], V(1)), V(2), lst([V(0)], V(3))), call(C("app", V(1), V(2), V(3))))]
    mem = [clause(C("member", V(0), lst([V(0)], V(900)))), clause(C("member", V(0), lst([V(900)], V(1))), call(C("member", V(0), V(1))))]
    down = [clause(C("down", A("z"))), clause(C("down", C("s", V(0))), call(C("down", V(0))))]
    length = [clause(C("len", NIL, A("z"))), clause(C("len", lst([V(900)], V(0)), C("s", V(1))), call(C("len", V(0), V(1))))]
    many = [clause(C("many", I(i), A("v%d" % (i % 7)))) for i in range(120)]
    clauses40 = [clause(C("c40", I(i), X), call(C("=", X, C("r", I(i), I(i * i))))) for i in range(45)]
    wide = [clause(C("wide12", *[V(i) for i in range(12)]), conj_(*[call(C("=", V(i), I(i))) for i in range(0, 12, 2)])),
            clause(C("wide12", *[A("k%d" % i) for i in range(12)]))]
    bigs = [2 ** 31 - 1, 2 ** 31, 2 ** 32, 2 ** 63 - 1, 2 ** 63, 2 ** 64, 10 ** 30, 255, 256, 65535, 65536]
    ints = [clause(C("big", I(b))) for b in bigs] + [clause(C("bigeq", X), call(C("=", X, I(2 ** 64 + 1))))]
    longname = "a" + "x" * 400
    names = [clause(C("name", A(longname))), clause(C("name", A("q " * 200))), clause(C(longname, A("ok")))]
    manyvars = [clause(C("mv", V(0)), conj_(*([call(C("=", V(i), C("f", V(i + 1)))) for i in range(16)] + [call(C("=", V(16), A("end")))])))]
    script = {"app/3": app, "member/2": mem, "down/1": down, "len/2": length, "many/2": many, "c40/2": clauses40, "wide12/12": wide,
              "big/1": ints[:-1], "bigeq/1": ints[-1:], "name/1": names[:2], longname + "/1": names[2:], "mv/1": manyvars}
    L40 = lst([I(i) for i in range(40)])
    qs = [(C("app", V(0), V(1), lst([A("e%d" % i) for i in range(25)])), 2, 0), (C("app", lst([I(i) for i in range(30)]), lst([A("t")]), V(0)), 1, 0),
          (C("member", V(0), L40), 1, 0), (C("member", I(39), L40), 0, 0), (C("down", s(70)), 0, 0), (C("len", L40, V(0)), 1, 0),
          (C("len", V(0), s(20)), 1, 1), (C("many", V(0), V(1)), 2, 0), (C("many", V(0), A("v3")), 1, 0), (C("many", I(119), V(0)), 1, 0),
          (C("c40", V(0), V(1)), 2, 0), (C("c40", I(44), V(0)), 1, 0), (C("wide12", *[V(i) for i in range(12)]), 12, 0),
          (C("wide12", *([A("k0")] + [V(i) for i in range(11)])), 11, 0), (C("big", V(0)), 1, 0), (C("big", I(2 ** 63)), 0, 0), (C("big", I(2 ** 63 + 1)), 0, 0),
          (C("bigeq", V(0)), 1, 0), (C("=", V(0), I(10 ** 40)), 1, 0), (C("name", V(0)), 1, 0), (C(longname, V(0)), 1, 0), (C("mv", V(0)), 1, 0),
          (C("=", lst([V(i) for i in range(30)]), lst([I(i) for i in range(30)])), 30, 0),
          (C("=", C("w", *[V(i % 5) for i in range(25)]), C("w", *[I(i % 5) for i in range(25)])), 5, 0),
          (C("=", s(60), s(60)), 0, 0), (C("\\=", s(60), s(61)), 0, 0), (C("findall", V(0), C("many", V(0), V(1)), V(2)), 3, 0)]
    scns = []
    for g, qnv, k in qs:
        scns.append({"scripts": {"P": script}, "steps": [[{"op": "load", "e": 1, "script": "P", "ow": True}],
                                                      [{"op": "solve", "e": 1, "r": 1, "goal": g, "qnv": qnv, "k": k}]], "keys": []})
    # the dynamic database at scale: 150 facts, interleaved retracts
    steps = []
    for i in range(150):
        steps.append([{"op": "assert", "e": 1, "term": C("dd", I(i), A("t%d" % (i % 3))), "atEnd": i % 4 != 0, "r": 0}])
    steps.append([{"op": "solve", "e": 1, "r": 1, "goal": C("dd", V(0), A("t1")), "qnv": 1, "k": 0}])
    steps.append([{"op": "solve", "e": 1, "r": 2, "goal": C("retract", C("dd", V(0), A("t2"))), "qnv": 1, "k": 20}])
    steps.append([{"op": "solve", "e": 1, "r": 3, "goal": C("retractall", C("dd", V(0), A("t0"))), "qnv": 1, "k": 0}])
    steps.append([{"op": "solve", "e": 1, "r": 4, "goal": C("dd", V(0), V(1)), "qnv": 2, "k": 0}])
    scns.append({"scripts": {}, "steps": steps, "keys": [{"n": "dd", "k": 2}]})
    return scns
