"""Body-tree families (C05/C06/C20/C03): TLC enumerates clause bodies x leaf solution counts
on spec/Codegen.tla (checking CodegenRefinesControl on the way) and prints each instance
with the reference answers of the denotational semantics (spec/Control.tla); here the
instances become scenarios for the machine (spec/YP.tla) and the real code."""
import json

from . import tlc
from .terms import A, I, V, C, clause, call, and_, or_, then, not_, TRUE, FAIL, CUT


def enumerate_instances(max_nodes, max_nodes2=0, max_sol=2, shard=0, shards=1, ir=False):
    import os
    cfg = "Codegen-%d-%d-%d-%d-%d-%d.cfg" % (max_nodes, max_nodes2, max_sol, shard, shards, os.getpid())
    p = os.path.join(tlc.SPEC, cfg)
    with open(p, "w") as f:
        f.write("SPECIFICATION Spec\nCONSTANTS MaxNodes = %d\nMaxNodes2 = %d\nMaxSol = %d\nShard = %d\nShards = %d\nEmitIR = %s\n"
                "INVARIANT CodegenRefinesControl\nINVARIANT EmitInstance\nCHECK_DEADLOCK FALSE\n" % (max_nodes, max_nodes2, max_sol, shard, shards, "TRUE" if ir else "FALSE"))
    try:
        res = tlc.run("Codegen", cfg, tag="cg-%d-%d" % (os.getpid(), max_nodes))
    finally:
        os.unlink(p)
    return res


def conv(b):
    k = b["b"]
    if k == "leaf":
        name = "m" if b["j"] == 0 else "c%d" % b["j"]
        return call(C(name, V(b["o"] - 1)))
    if k in ("true", "fail", "cut"):
        return {"b": k}
    if k in ("and", "or"):
        return {"b": k, "l": conv(b["l"]), "r": conv(b["r"])}
    if k == "then":
        return then(conv(b["c"]), conv(b["t"]))
    if k == "not":
        return not_(conv(b["g"]))
    raise ValueError(k)


def kinds(b, acc=None):
    acc = set() if acc is None else acc
    acc.add(b["b"])
    if b["b"] == "call":
        return acc
    for f in ("l", "r", "c", "t", "g"):
        if f in b and isinstance(b[f], dict):
            kinds(b[f], acc)
    return acc


def leaf_names(b, acc=None):
    acc = set() if acc is None else acc
    if b["b"] == "leaf":
        acc.add(b["j"])
    for f in ("l", "r", "c", "t", "g"):
        if f in b and isinstance(b[f], dict):
            leaf_names(b[f], acc)
    return acc


def tuple_terms(tup):
    """Control's answer tuple (0 = occurrence not on the path) as canonical terms"""
    out = []
    nv = 0
    for x in tup:
        if x == 0:
            out.append(V(nv)); nv += 1
        else:
            out.append(I(x))
    return out


def dedupe(records):
    """instances that differ only in the count of a leaf name they do not use are the same"""
    seen = set()
    out = []
    for r in records:
        used = set()
        for c in r["clauses"]:
            leaf_names(c, used)
        cnt = tuple(r["cnt"][j - 1] if j in used else -1 for j in (1, 2))
        key = (json.dumps(r["clauses"], sort_keys=True), cnt)
        if key in seen:
            continue
        seen.add(key)
        out.append(r)
    return out


def scenario(rec, wrapper=False, native=None):
    n = rec["nocc"]
    script = {}
    for j in (1, 2):
        if rec["cnt"][j - 1] > 0:
            script["c%d/1" % j] = [clause(C("c%d" % j, I(i))) for i in range(1, rec["cnt"][j - 1] + 1)]
    script["m/1"] = [clause(C("m", I(1)))]
    head = C("t", *[V(i) for i in range(n)])
    script["t/%d" % n] = [clause(head, conv(b)) for b in rec["clauses"]]
    for c in script["t/%d" % n]:
        c["nv"] = n
    answers = [tuple_terms(t) for t in rec["sem"]]
    steps = [[{"op": "load", "e": 1, "script": "P", "ow": True}],
             [{"op": "solve", "e": 1, "r": 1, "goal": head, "qnv": n, "k": 0}]]
    sem = [{"step": 2, "answers": answers, "end": "stop"}]
    if wrapper:
        script["pre/1"] = [clause(C("pre", I(1))), clause(C("pre", I(2)))]
        script["post/1"] = [clause(C("post", I(1))), clause(C("post", I(2)))]
        th = C("top", *[V(i) for i in range(n + 2)])
        inner = C("t", *[V(i) for i in range(1, n + 1)])
        cl = clause(th, and_(call(C("pre", V(0))), and_(call(inner), call(C("post", V(n + 1))))))
        script["top/%d" % (n + 2)] = [cl]
        steps.append([{"op": "solve", "e": 1, "r": 2, "goal": th, "qnv": n + 2, "k": 0}])
        wans = []
        for a in (1, 2):
            for t in rec["sem"]:
                for b in (1, 2):
                    wans.append(tuple_terms([a] + list(t) + [b]))
        sem.append({"step": 3, "answers": wans, "end": "stop"})
    return {"scripts": {"P": script}, "steps": steps, "sem": sem, "keys": []}


# ---------------------------------------------------------------- drift report for spec/Codegen.tla
def real_ir(rec):
    """the intermediate code the REAL YPPrologCompiler.compile_body produces for the instance's
    clause bodies, in the vocabulary of spec/Codegen.tla"""
    from . import real
    import yldprolog.yp_prolog_visitor as vis
    import yldprolog.yp_generator as gen

    def mk(b):
        k = b["b"]
        if k == "leaf":
            name = "m" if b["j"] == 0 else "c%d" % b["j"]
            return vis.Predicate(vis.Functor(vis.Atom(name), [vis.VariableTerm("V%d" % b["o"])]))
        if k == "true":
            return vis.TruePredicate()
        if k == "fail":
            return vis.FailPredicate()
        if k == "cut":
            return vis.CutPredicate()
        if k == "and":
            return vis.ConjunctionPredicate(mk(b["l"]), mk(b["r"]))
        if k == "or":
            return vis.DisjunctionPredicate(mk(b["l"]), mk(b["r"]))
        if k == "then":
            return vis.IfThenPredicate(mk(b["c"]), mk(b["t"]))
        if k == "not":
            return vis.NegationPredicate(mk(b["g"]))
        raise ValueError(k)

    class Ctx:
        debug_filename = ''
        debug_parser = False
        debug_generator = False
        current_source_file = ''
        outf = None
    comp = gen.YPPrologCompiler(Ctx)

    def conv(code):
        out = []
        for c in code:
            n = type(c).__name__
            if n == "YPCodeForeach":
                call = c.loop_expression
                name = call.args[0].expr
                var = call.args[1].l[0].name
                out.append({"k": "foreach", "j": 0 if name == "m" else int(name[1:]), "o": int(var.rstrip("_")[1:]), "code": conv(c.loop_code)})
            elif n in ("YPCodeYieldFalse", "YPCodeYieldTrue"):
                out.append({"k": "yield"})
            elif n == "YPCodeYieldBreak":
                out.append({"k": "return"})
            elif n == "YPCodeBreakableBlock":
                out.append({"k": "block", "label": int(c.label[5:]), "code": conv(c.body)})
            elif n == "YPCodeBreakBlock":
                out.append({"k": "breakblock", "label": int(c.label[5:])})
            else:
                out.append({"k": "other:" + n})
        return out
    code = []
    for b in rec["clauses"]:
        code.extend(conv(comp.compile_body(mk(b))))
    return code


def drift(records, limit=3000):
    """instances on which the model's IR differs from the real compile_body's (informational)"""
    import json
    out = []
    n = 0
    for r in records[:limit]:
        if not r.get("ir") and r.get("ir") != []:
            continue
        n += 1
        try:
            real = real_ir(r)
        except Exception as e:
            out.append({"clauses": r["clauses"], "error": "%s: %s" % (type(e).__name__, e)})
            continue
        if json.dumps(real, sort_keys=True) != json.dumps(r["ir"], sort_keys=True):
            out.append({"clauses": r["clauses"], "model": r["ir"], "real": real})
    return n, out
