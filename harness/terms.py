"""Term images shared by the TLA+ specification and the Python drivers.

A term is the JSON image of the TLA+ record of spec/Terms.tla:
  {"t":"a","n":name} | {"t":"i","n":decimal string} | {"t":"v","id":k} | {"t":"c","n":name,"a":[...]}
Bodies: {"b":"true"|"fail"|"cut"} | {"b":"call","g":term} | {"b":"and"|"or","l":..,"r":..}
        | {"b":"then","c":..,"t":..} | {"b":"not","g":..}
Clauses: {"h":term,"body":body,"nv":n} with clause-local variable ids 0..n-1.
"""
import re

def A(n): return {"t": "a", "n": n}
def I(n): return {"t": "i", "n": str(n)}
def V(i): return {"t": "v", "id": i}
def C(n, *a): return {"t": "c", "n": n, "a": list(a)}
NIL = A("[]")

def lst(xs, tail=None):
    r = tail if tail is not None else NIL
    for x in reversed(xs):
        r = C(".", x, r)
    return r

TRUE = {"b": "true"}
FAIL = {"b": "fail"}
CUT = {"b": "cut"}
def call(g): return {"b": "call", "g": g}
def and_(l, r): return {"b": "and", "l": l, "r": r}
def or_(l, r): return {"b": "or", "l": l, "r": r}
def then(c, t): return {"b": "then", "c": c, "t": t}
def not_(g): return {"b": "not", "g": g}
def conj(*gs):
    gs = list(gs)
    r = gs[-1]
    for g in reversed(gs[:-1]):
        r = and_(g, r)
    return r

def term_vars(t, acc=None):
    acc = [] if acc is None else acc
    if t["t"] == "v":
        if t["id"] not in acc:
            acc.append(t["id"])
    elif t["t"] == "c":
        for a in t["a"]:
            term_vars(a, acc)
    return acc

def body_vars(b, acc=None):
    acc = [] if acc is None else acc
    k = b["b"]
    if k == "call":
        term_vars(b["g"], acc)
    elif k in ("and", "or"):
        body_vars(b["l"], acc); body_vars(b["r"], acc)
    elif k == "then":
        body_vars(b["c"], acc); body_vars(b["t"], acc)
    elif k == "not":
        body_vars(b["g"], acc)
    return acc

def clause(h, body=TRUE):
    vs = term_vars(h)
    body_vars(body, vs)
    nv = (max(vs) + 1) if vs else 0
    return {"h": h, "body": body, "nv": nv}

def key_of(t):
    return "%s/%d" % (t["n"], len(t.get("a", [])))

# ---------------------------------------------------------------- rendering to Prolog text
_PLAIN = re.compile(r"[a-z][A-Za-z0-9_]*\Z")

QUOTE_NIL = [False]      # render mode "qnil": the empty list that is not part of list syntax is written '[]'


def render_atom(n):
    if n == "[]":
        return "'[]'" if QUOTE_NIL[0] else "[]"
    if _PLAIN.match(n) and n not in ("true", "fail"):
        return n
    return "'" + n.replace("'", "\\'") + "'"

BINOPS = ("=", "\\=", "==", "\\==", "<", ">", "=<", ">=")
UNOPS = ("-", "+")


def _operand(t, vn):
    """operands that are operator terms themselves are parenthesised (the grammar's `term BINOP term`
    is ambiguous otherwise)"""
    s = render_term(t, vn)
    if t["t"] == "c" and ((t["n"] in BINOPS and len(t["a"]) == 2) or (t["n"] in UNOPS and len(t["a"]) == 1)):
        return "(" + s + ")"
    return s


def render_term(t, varname=None):
    # named variables may start with an underscore (they are ordinary variables, unlike the bare `_`)
    vn = varname or (lambda i: "_" if i >= 900 else ("_V%d" % i if i % 4 == 3 else "V%d" % i))
    k = t["t"]
    if k == "a":
        return render_atom(t["n"])
    if k == "i":
        return t["n"]
    if k == "v":
        return vn(t["id"])
    if t["n"] == "." and len(t["a"]) == 2:
        items = []
        x = t
        while x["t"] == "c" and x["n"] == "." and len(x["a"]) == 2:
            items.append(render_term(x["a"][0], vn)); x = x["a"][1]
        if x == NIL:
            return "[" + ",".join(items) + "]"
        if x["t"] == "v":
            return "[" + ",".join(items) + "|" + render_term(x, vn) + "]"
        raise ValueError("improper list not expressible in the grammar")
    if not t["a"]:
        return render_atom(t["n"]) + "()"          # a compound term without arguments: foo()
    if t["n"] in BINOPS and len(t["a"]) == 2:
        return "%s %s %s" % (_operand(t["a"][0], vn), t["n"], _operand(t["a"][1], vn))
    if t["n"] in UNOPS and len(t["a"]) == 1:
        return "%s %s" % (t["n"], _operand(t["a"][0], vn))
    return render_atom(t["n"]) + "(" + ",".join(render_term(a, vn) for a in t["a"]) + ")"

# precedence (looseness): ',' 1 < '->' 2 < ';' 3 ; all right-associative; '\+' prefix binds tightest
_PREC = {"and": 1, "then": 2, "or": 3}
_OPTXT = {"and": ",", "then": "->", "or": ";"}

def render_body(b, mode="full", vn=None):
    """mode 'full': every binary construct parenthesised; 'minimal': only the parentheses
    the precedence table requires."""
    k = b["b"]
    if k == "call":
        return render_term(b["g"], vn)
    if k in ("true", "fail"):
        return k
    if k == "cut":
        return "!"
    if k == "not":
        inner = b["g"]
        s = render_body(inner, mode, vn)
        if inner["b"] in _PREC and not (mode == "full"):
            s = "(" + s + ")"
        return "\\+ " + s if mode == "minimal" else "(\\+ " + s + ")"
    if k == "then":
        l, r = b["c"], b["t"]
    else:
        l, r = b["l"], b["r"]
    ls, rs = render_body(l, mode, vn), render_body(r, mode, vn)
    if mode == "full":
        return "(%s %s %s)" % (ls, _OPTXT[k], rs)
    p = _PREC[k]
    # right-associative: left operand needs parentheses if its precedence is >= p
    if l["b"] in _PREC and _PREC[l["b"]] >= p:
        ls = "(" + ls + ")"
    if r["b"] in _PREC and _PREC[r["b"]] > p:
        rs = "(" + rs + ")"
    return "%s %s %s" % (ls, _OPTXT[k], rs)

def render_clause(c, mode="full"):
    vn = None
    if mode == "qnil":
        QUOTE_NIL[0] = True
        try:
            return render_clause(c, "full")
        finally:
            QUOTE_NIL[0] = False
    if mode.startswith("names:"):
        # named variables spelled like names a compiler might generate itself (`_G1`, `_x1`, `X1`, `_1`, ...)
        fmt = mode[6:]
        vn = lambda i: "_" if i >= 900 else fmt % (i + 1)
        mode = "full"
    h = render_term(c["h"], vn)
    if c["body"] == TRUE:
        return h + "."
    return h + " :- " + render_body(c["body"], mode, vn) + "."

def render_script(script, mode="full"):
    """script: {key: [clauses]} ; clauses of one key are kept together, keys in the given order.
    mode 'decorated': minimal parentheses plus things that must not change the meaning: comments
    (with quotes, dots and clause-like text inside), directives, blank lines, tabs, CRLF"""
    out = []
    if mode != "decorated":
        for key, cls in script.items():
            for c in cls:
                out.append(render_clause(c, mode))
        return "\n".join(out) + "\n"
    n = 0
    out.append("% generated for verification: it's a comment. with(a, 'quote) :- and, a dot.")
    out.append(":- initialization(main).")
    for key, cls in script.items():
        out.append("")
        out.append("%% %s" % key.replace("\n", " "))
        for c in cls:
            n += 1
            line = render_clause(c, "minimal")
            if n % 3 == 0:
                line = "\t" + line.replace(" :- ", "\t:-\n\t\t", 1)
            if n % 4 == 1:
                line = line + "   % trailing comment p(x) :- q."
            if n % 5 == 2:
                out.append(":- dynamic(foo).")
            out.append(line + ("\r" if n % 7 == 3 else ""))
    out.append("% last line")
    return "\n".join(out) + "\n"
